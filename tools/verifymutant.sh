#!/bin/bash
# tools/verifymutant.sh <patch.diff> <demo-file>=<dest-path-in-tree> [more pairs] -- <go test args...>
# Confirms a seeded change in a throw-away worktree of /repo HEAD:
#   (c) demonstration passes without the change, (b) fails with it,
#   (a) the existing suite passes with it. Prints a summary (for run.txt).
set -u
PATCH="$(readlink -f "$1")"; shift
PAIRS=()
while [ $# -gt 0 ] && [ "$1" != "--" ]; do PAIRS+=("$1"); shift; done
shift
export GOFLAGS=-mod=mod GOPROXY=off GOSUMDB=off
WT="/tmp/vm-$$-$RANDOM"
git -C /repo worktree add -q --detach "$WT" HEAD || exit 2
trap 'git -C /repo worktree remove --force "$WT" >/dev/null 2>&1' EXIT
for p in "${PAIRS[@]}"; do src="$(readlink -f "${p%%=*}")"; dst="${p#*=}"; mkdir -p "$WT/$(dirname "$dst")"; cp "$src" "$WT/$dst"; done
cd "$WT"
echo "== (c) demonstration on the pristine tree: go test $*"
go test -vet=off -count=1 "$@" 2>&1 | tail -5; rc_c=${PIPESTATUS[0]}
git apply "$PATCH" || { echo "PATCH-DOES-NOT-APPLY"; exit 3; }
echo "== (b) demonstration with the change"
go test -vet=off -count=1 "$@" 2>&1 | grep -v "^\s*$" | tail -12; rc_b=${PIPESTATUS[0]}
for p in "${PAIRS[@]}"; do rm -f "$WT/${p#*=}"; done
echo "== (a) existing suite with the change"
go test -vet=off -count=1 ./... > "$WT/.suite.out" 2>&1; rc_a=$?
grep -v "no test files" "$WT/.suite.out" | tail -15
if [ $rc_a -ne 0 ]; then
  # the pristine tree has flaky tests in package index: a failing package is re-run alone, up to 6 times
  rc_a=0
  for pkg in $(grep -E "^FAIL[[:space:]]+github.com" "$WT/.suite.out" | awk '{print $2}'); do
    ok=1
    for try in 1 2 3 4 5 6; do
      if go test -vet=off -count=1 "$pkg" > /dev/null 2>&1; then ok=0; echo "   (package $pkg passed on re-run $try)"; break; fi
    done
    [ $ok -ne 0 ] && { echo "   package $pkg keeps failing"; rc_a=1; }
  done
  grep -q "^FAIL" "$WT/.suite.out" || rc_a=1   # build failure or something else
fi
echo "SUMMARY pristine-demo-rc=$rc_c mutant-demo-rc=$rc_b suite-rc=$rc_a"
[ $rc_c -eq 0 ] && [ $rc_b -ne 0 ] && [ $rc_a -eq 0 ] && echo "CONFIRMED" || echo "NOT-CONFIRMED"
