#!/bin/bash
# tools/trymutant.sh <patch.diff> <check-id> [<check-id> ...]
# Applies a seeded change to a throw-away worktree of /repo's HEAD and runs the
# given checks (quick tier) against it. Prints one line per check:
#   DETECTED <id> <signatures>   |   MISSED <id>   |   TROUBLE <id>
set -u
PATCH="$(readlink -f "$1")"; shift
V="$(cd "$(dirname "$0")/.." && pwd)"
WT="/tmp/det-$$-$RANDOM"
git -C /repo worktree add -q --detach "$WT" HEAD || exit 2
trap 'git -C /repo worktree remove --force "$WT" >/dev/null 2>&1' EXIT
if ! git -C "$WT" apply "$PATCH" 2>/tmp/apply-$$.err; then
  echo "PATCH-DOES-NOT-APPLY $(head -2 /tmp/apply-$$.err | tr '\n' ' ')"; rm -f /tmp/apply-$$.err; exit 3
fi
rm -f /tmp/apply-$$.err
for id in "$@"; do
  out=$(cd "$V" && VERIF_REPO="$WT" VERIF_DIR_EVIDENCE_SKIP=1 ./check "$id" --tier "${TIER:-quick}" 2>&1)
  rc=$?
  sigs=$(echo "$out" | grep "signature:" | sed 's/.*signature: //' | sort -u | head -4 | tr '\n' ';')
  case $rc in
    0) echo "MISSED $id";;
    1) echo "DETECTED $id $sigs";;
    *) echo "TROUBLE $id rc=$rc $(echo "$out" | tail -3 | tr '\n' ' ' | cut -c1-300)";;
  esac
done
