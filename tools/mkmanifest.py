#!/usr/bin/env python3
"""Regenerates /verif/MANIFEST.json from the table below (kept in one place so
that the file stays valid while checks are added)."""
import json, subprocess, os

V = os.path.dirname(os.path.dirname(os.path.abspath(__file__)))

def hook_commits():
    try:
        out = subprocess.check_output(["git", "-C", "/repo", "log", "--format=%h %s"], text=True)
        return [l.split()[0] for l in out.splitlines() if l.split(" ", 1)[1].startswith("verif hook")]
    except Exception:
        return []

CHECKS = {
 # id: (level, design_ref, technique, text, note)
 "C01": ("exploration", "DESIGN.md §3 C01, §2.5 World I",
         "deterministic simulation: seeded histories (insert/remove/update/save+load/search) on the real index with simulator-owned map iteration order, checked against a reference map; second leg: a simulated cluster of real servers (writes with metadata through any node and API path, restarts that recover from snapshot + log suffix, seeded scheduling) whose dataset searches through the Search service are checked against a sequential map; seeded search over histories, orders and schedules with shrinking",
         "Seeded search over operation histories, index parameters and owned map-iteration orders; every search result is checked against a reference map (live ids only, current metadata, score = space.Distance to the current vector, ascending, unique, <= k, non-empty when the collection is non-empty). A clean batch is evidence, not proof.",
         "Distances computed with the repository's own space.Distance (same dispatch); zero vectors under cosine excluded (C12 domain); the cluster leg is fault-free and searches after the replicas converged (what a lagging replica may answer is stated per replica in the property; merging under faults is C09's subject)."),
 "C08": ("exploration", "DESIGN.md §3 C08, §2.5 World I",
         "deterministic simulation: seeded histories produce the saved state; a simulated io.Reader (1-byte reads, random short reads, data-with-EOF, trailing bytes) feeds Load; dump-before-save vs dump-after-load oracle; worker address-space limit turns count-sized allocations into observations",
         "Seeded search over saved states (empty, emptied, after removals/updates/hand-overs, rich metadata), header flag, reader fragmentation and load target (fresh, other parameters, used index). Oracle: Load of own output succeeds, consumes exactly the bytes written, and the dump (ids, bit-identical vectors, metadata, levels, live links, entry point, both counters) equals the dump before Save.",
         "Reader faults are those io.Reader permits; truncated/corrupted input is outside the statement. Memory proportionality is observed only through a 2 GiB address-space limit per worker."),
 "C02": ("exploration", "DESIGN.md §3 C02, §2.5 World II",
         "deterministic simulation of the partition state machine: seeded logs of replicated changes applied through the real apply function, refinement against a sequential map model after every entry (outcome, contents, counters)",
         "Seeded search over logs of all six change kinds; after every entry the outcome the partition reports, its full contents and its counters must equal a sequential map model (exact 'already exists'/'not found', merge semantics, Len, data bytes, bounded BytesSize).",
         "Entries are well-formed (malformed ones are C12's subject); raft is stubbed out (entries are handed to partition.process directly); link-estimate bound 4 KiB per item for the default parameters."),
 "C04": ("fault_enumeration", "DESIGN.md §3 C04, §2.5 World II",
         "deterministic simulation of several partition replicas fed one generated log; the snapshot/restore point is enumerated over every cut of each log (fresh, used and re-snapshotted restorers, different owned map orders); dump-equality oracle plus sequential map model",
         "For each seeded log, EVERY cut point is exercised: prefix, snapshot, restore into a fresh / used replica, suffix; all replicas must report the same outcome per entry and end with identical contents, equal to the sequential map model. Snapshots kept while their author moves on and takes later ones are restored afterwards as well.",
         "Enumeration is complete per log over cut points (not over logs); raft and the log store are stubbed (World III covers the replicated path)."),
 "C06": ("fault_enumeration", "DESIGN.md §3 C06, §2.5 World IV",
         "deterministic simulation of the raft log store: seeded legal call sequences on the real Badger-backed WAL, differential oracle against etcd raft.MemoryStorage after every call through warm and cold-cache instances; reopen enumerated at every position, DB close/reopen and DeleteGroup as generated faults, several groups per database",
         "For each seeded call sequence every read method is compared with etcd's MemoryStorage after EVERY call, through the warm instance and a fresh one (cold cache), for every group in the database (isolation); with enum set, for EVERY position a shadow group replays the sequence with a reopen at that position.",
         "Reference order for one Save: ApplySnapshot, Append, SetHardState. Badger's own durability trusted; calls the reference rejects by panicking are not generated."),
 "C16": ("exploration", "DESIGN.md §3 C16, §2.5 World V",
         "deterministic simulation of DatasetManager + Allocator + cluster.Conn over a scripted raft.Group inside a synctest bubble; placement predicate per partition plus independence/spread statistics asserted only where the false-alarm probability is below 2^-60",
         "Seeded search over N (1..16), R (1..8), P (1..64) and shuffle / map-order seeds: every partition gets exactly min(R,N) distinct member ids; partitions are not all placed identically and every member is used, asserted only where chance makes a false alarm impossible in practice (< 2^-60).",
         "The local node is not a member (no partition raft started); randomness seeded by the harness (math/rand seed + runtime overlay)."),
 "C13": ("exploration", "DESIGN.md §3 C13, §2.5 World I (concurrent)",
         "deterministic simulation of goroutine interleavings: a seeded token scheduler owns every lock operation and sync/atomic statement of package index (source rewrite), random and PCT schedules; oracles: porcupine set-linearizability per id, Len bounds, search-liveness window, quiescent invariants, deadlock detector; second leg under the Go race detector with raw-pipe hand-off",
         "Seeded search over schedules at synchronisation-point granularity for 2..5 workers (profiles: one writer + readers, many inserters, many writers). Per-id outcomes must be linearizable as a set (porcupine), Len within linearizable bounds, every concurrently returned search item live in the search window with the right score, quiescent state satisfies the sequential invariants and the C01 oracle; no panic, deadlock or race report.",
         "Interleavings between two synchronisation points are not explored (only the race-detector leg sees plain accesses there); checkptr is disabled in the race build because the SIMD wrappers pass a length as a fake pointer (C15's subject)."),
 "C03": ("fault_enumeration", "DESIGN.md §3 C03, §2.5 World III",
         "deterministic simulation of a cluster of real servers in one synctest bubble; the crash instant is enumerated over every durable-write boundary (before/after each non-empty Save, local snapshot, log reset) of every node for each generated workload, including workloads in which a cut-off replica is caught up by a snapshot; recovered replica contents checked against the acknowledged history with a nondeterministic per-id register model (porcupine); sampled variants add crashes at quiescence, of all nodes, and message faults",
         "For each seeded workload the fault-free run counts the durable-write boundaries per node, then the workload is re-executed once per (node, boundary, side) with a crash there, restart of everything and convergence; acknowledged writes must be present, in-flight writes may or may not be, nothing unsubmitted may appear, all replicas agree.",
         "Badger's transactional durability trusted (no torn WriteBatch); unacknowledged writes are indeterminate; enumeration is complete per workload over boundaries, not over workloads."),
 "C05": ("exploration", "DESIGN.md §3 C05, §2.5 World III",
         "deterministic simulation with fault injection on a cluster of 1..5 real servers (real etcd raft, Badger log store, transport glue): seeded message loss / duplication / late delivery / partitions / crash-restart; safety monitors after every step (state-machine safety, apply order, persist-before-reveal and persist-before-apply against the durable log store, durable monotonicity across restarts, election safety, no death), death at a chosen durable-write boundary as a scenario step and bounded-liveness convergence after faults stop",
         "Seeded search over fault schedules; monitors compare every outgoing vote grant / append acknowledgement with what the sender's log store holds durably at that instant, every applied (group,index) digest across replicas and incarnations, durable term/commit/committed entries across restarts; after faults stop all replicas must converge within 120 simulated seconds and accept writes.",
         "Scheduling owned at hook/RPC/yield granularity; Badger durability trusted; durable state read through the product's own log-store reader (validated by C06)."),
 "C09": ("exploration", "DESIGN.md §3 C09, §2.5 World III",
         "deterministic simulation of a cluster of real servers: the simulated network records every SearchPartitions leg of each Dataset.Search; seeded yields and select order at the fan-out/fan-in channel operations, crashed node / blocked link / response loss as faults; oracle: success implies every partition searched exactly once and result = k best of the union of the legs, each leg = merge of direct index searches, any failed leg implies an error. A second leg runs the same scenarios in a worker built with -race and reports data races whose two accesses both lie inside the operation itself (DESIGN 2.10).",
         "Seeded search over placements (1..8 partitions, 1..3 replicas, 1..4 nodes), k, completion orders (yield probability, seeded select) and failing nodes; the oracle is computed from what the answering replicas actually returned.",
         "Interleavings owned at yield-point / RPC granularity, not per instruction."),
 "C10": ("exploration", "DESIGN.md §3 C10, §2.5 World III",
         "deterministic simulation of a fault-free cluster: the same id universe is written through random entry nodes (hosting or not hosting the owner) and both API paths, with a restart of all nodes in between; refinement against one sequential map (any routing disagreement shows as a wrong outcome) plus placement invariant (each id in exactly one partition, replicas equal)",
         "Seeded search over partition counts 1..8, entry nodes, API paths and restarts; every outcome must equal a sequential map and every id must live in exactly one partition. The arithmetic claim over all 2^128 ids and moduli up to 1024 is a pure function and only sampled through the ids used.",
         "Multi-node half of the property; fault-free by construction."),
 "C11": ("exploration", "DESIGN.md §3 C11, §2.5 World III",
         "deterministic simulation of a cluster with four modes: fault-free exact outcomes and batch error maps vs a sequential map; proposers paused between Propose and their wait (hook H5); overlapping callers checked with a porcupine register model; message faults, crash/isolation and removal of the owner from the address book with the oracle 'acknowledged success implies applied on a surviving replica'. A second leg runs the same scenarios in a worker built with -race and reports data races whose two accesses both lie inside the operation itself (DESIGN 2.10).",
         "Seeded search over caller interleavings, API paths, wrong-dimension items, pause timing and unreachable-owner situations; a success must be applied, a wrong dimension must be rejected without effect, fault-free calls must get their own outcome.",
         "A write whose acknowledgement was lost is indeterminate; forwarded proposals are never duplicated by the simulated network (gRPC does not duplicate requests)."),
 "C17": ("exploration", "DESIGN.md §3 C17, §2.5 World III",
         "deterministic simulation of a cluster: partitions with different sizes, SizeInfo asked on every node under seeded yields at the goroutine starts of the lookup loop, crashed node / blocked link as faults; oracle: success implies len = sum over partitions (each once) and bytes within the range the replicas report, a failed lookup implies an error. A second leg runs the same scenarios in a worker built with -race and reports data races whose two accesses both lie inside the operation itself (DESIGN 2.10).",
         "Seeded search over placements, sizes, completion orders and failing lookups; expected sums are read from the partitions themselves at a quiescent instant.",
         "Byte sizes may differ between replicas of one partition (entry point level), so the byte sum is checked against the [min,max] range."),
 "C14": ("exploration", "DESIGN.md §3 C14, §2.5 World III",
         "deterministic simulation of a cluster of real servers driven by generated control-plane histories (create/delete dataset through any node, joins, removals, crash/restart of one or all nodes, zero-group compaction via the snapshot-threshold knob and the fake clock, isolation, message faults); catalogue model from acknowledged operations; all members' catalogues compared after settling and again after a restart of every node",
         "Seeded search over control-plane histories, snapshot cut points (compaction threshold 2/3/5000 + fake time) and restarts: every member lists the same catalogue (id, dimension, metric, partition ids, replica assignment), acknowledged creates are present, acknowledged deletes are gone (also their partition groups), replay and snapshot+suffix agree.",
         "Unacknowledged operations are indeterminate; node 1 is never removed (it is every node's join target); removals are only issued while the remaining members form a majority."),
 "C18": ("exploration", "DESIGN.md §3 C18, §2.5 World III and World VI",
         "deterministic simulation with bursts of unawaited create/delete/join steps, removals, restarts of nodes holding datasets; simulated mutexes make lock waits durable so that a wedge is visible at a quiescent instant; bounded-liveness oracle: settle within 120 simulated seconds, no catalogue lock held while everything is blocked, canary creates and data-plane probes succeed or fail loudly on every node; second leg: the real cluster connection (address book, dial cache, membership notifications) driven by several workers under a seeded token scheduler that owns every lock operation (deadlock detector, address-book and notification oracles)",
         "Seeded search over interleavings of membership notifications with catalogue applications and partition raft loading (yield points, seeded select, unawaited bursts, restart replay); liveness asserted only after faults stop.",
         "Scheduling owned at hook/RPC/yield granularity; a partition group that lost its quorum to an acknowledged removal is not counted as a control-plane wedge."),
 "C20": ("exploration", "DESIGN.md §3 C20, §2.5 World III",
         "deterministic simulation of joins through a member, removals, lost handshake messages (join retried by process restart), zero-group compaction and restart of any/all members; membership model from acknowledged joins/removals; every member's address book compared with the model (ids and announced addresses) after settling and after a restart of all nodes",
         "Seeded search over join/removal histories, message loss during the handshake, compaction and restart points; after convergence every member lists exactly the acknowledged members with the addresses they announced, also after recovering from a snapshot.",
         "A join counts as acknowledged when JoinCluster returned; a removal when RemoveNode returned success (the operator repeats the request otherwise)."),
 "C12": ("exploration", "DESIGN.md §3 C12, §2.5 World III",
         "deterministic simulation of a cluster of real servers fed sequences of well-typed hostile requests from a grammar over every RPC; handler panics are caught where the simulated network invokes the real handler, panics / log.Fatal in product goroutines are observed as process death; healthy canary traffic after each request, after a restart of all nodes (log replay) and after compaction + restart (snapshot load)",
         "Seeded search over request shapes (malformed ids, zero / huge / non-finite values, oversize metadata and batches, unknown datasets and partitions, zero counts, unknown metric) and orders; the oracle is process/handler survival plus a canary that must keep working now and after every replay.",
         "A handler panic counts as a crash (grpc-go does not recover); byte-level malformed frames are not generated."),
}

NOT_APPLICABLE = {
 "C07": "search quality (exactness on small insert-only collections, recall floor) is a pure function of point set, insertion order and levels: no schedule, clock, fault or interleaving for a simulator to own (DESIGN.md §4)",
 "C15": "SIMD kernels vs scalar code is a pure function of two byte ranges and their addresses; out-of-bounds reads need guard pages, not a scheduler (DESIGN.md §4)",
 "C19": "priority queue ordering / Reverse independence is a sequential abstract data type, a pure function of the call sequence (DESIGN.md §4)",
}

ALL = ["C%02d" % i for i in range(1, 21)]

def main():
    checks = []
    for cid in ALL:
        if cid not in CHECKS:
            continue
        level, ref, tech, text, note = CHECKS[cid]
        checks.append({
            "property_id": cid,
            "quick_cmd": "./check %s --tier quick" % cid,
            "thorough_cmd": "./check %s --tier thorough" % cid,
            "evidence_file": "/verif/evidence/%s.json" % cid,
            "replay_cmd_template": "./check %s --replay {path}" % cid,
            "engine": "sim",
            "level_claimed": {"category": level, "text": text, "design_ref": ref},
            "level_note": note,
            "technique": tech,
        })
    na = []
    for cid in ALL:
        if cid in CHECKS:
            continue
        reason = NOT_APPLICABLE.get(cid, "check not built yet in this session (planned in DESIGN.md §3); not claimed until it runs")
        na.append({"property_id": cid, "reason": reason})
    m = {
        "version": 1,
        "setup_cmd": "cd /verif && ./setup.sh",
        "hooks": {
            "guard": "verif",
            "enable": "go build tag: checks build a scratch copy of /repo with `-tags verif` (plus the /verif/cmd/rewrite source rewrite applied to that copy only)",
            "baseline_off_cmd": "cd /repo && GOFLAGS=-mod=mod GOPROXY=off go test -vet=off -count=1 ./...",
            "source_commits": hook_commits(),
            "add_only": True,
        },
        "engines": [{
            "name": "sim", "path": "/verif/sim",
            "serves_properties": sorted(CHECKS.keys()),
            "kind_free_text": "deterministic simulation with fault injection: one Go test binary (go1.26.8, testing/synctest) built from a rewritten scratch copy of /repo; seeded scheduler, simulated network/disk boundaries/crashes, reference-model oracles, shrinking, replay files",
        }],
        "checks": checks,
        "not_applicable": na,
        "notes": "Every check rebuilds from /repo's working tree (rsync to /dev/shm, rewrite, go test -c -tags verif). Exit 0 held, 1 VIOLATION, 2 build/harness trouble. VERIF_SEED sets the root seed; VERIF_SEEDS overrides the number of runs; known findings are in /verif/known_findings.json.",
    }
    with open(os.path.join(V, "MANIFEST.json"), "w") as f:
        json.dump(m, f, indent=1)
        f.write("\n")

if __name__ == "__main__":
    main()
