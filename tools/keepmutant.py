#!/usr/bin/env python3
# tools/keepmutant.py <new-id> <property> <source MUTANTS/mN dir> <results-prefix> <wave> "<needs>" "<detected_by json>" "<note>"
# Files a confirmed seeded change under /verif/seeded/<new-id>/.
import sys, os, shutil, json, glob
nid, prop, src, resp, wave, needs, det, note = sys.argv[1:9]
dst = f'/verif/seeded/{nid}'
os.makedirs(dst, exist_ok=True)
for f in os.listdir(src):
    p = os.path.join(src, f)
    if os.path.isdir(p):
        for g in os.listdir(p):
            shutil.copy(os.path.join(p, g), os.path.join(dst, g if not g.endswith('.go') else g + '.txt'))
    elif f.endswith('.go'):
        shutil.copy(p, os.path.join(dst, f + '.txt'))
    elif os.path.getsize(p) < 400000:
        shutil.copy(p, dst)
ver = resp + '.ver'
summary = []
if os.path.exists(ver):
    shutil.copy(ver, os.path.join(dst, 'run.txt'))
    summary = [l.strip() for l in open(ver) if l.startswith('SUMMARY') or l.startswith('CONFIRMED') or 'FAIL:' in l][:6]
meta = {
 "id": nid, "property": prop,
 "origin": f"written by a fresh sub-agent ({wave} wave, on the repaired HEAD) that saw only the property text and a scratch worktree of /repo (nothing from /verif)",
 "needs_to_manifest": needs,
 "confirmed_by_me": {"how": "tools/verifymutant.sh in a throw-away worktree of /repo HEAD: demonstration PASSES without the change, FAILS with it, existing suite passes with it (flaky index tests re-run)", "verify_log_summary": summary},
 "checks_run": "tools/trymutant.sh seeded/%s/patch.diff <checks> (quick tier, default root seed)" % nid,
 "detected_by": json.loads(det),
 "note": note,
}
json.dump(meta, open(os.path.join(dst, 'meta.json'), 'w'), indent=1)
print("kept", dst, os.listdir(dst))
