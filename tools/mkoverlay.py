#!/usr/bin/env python3
"""Generates /verif/overlay/{rand,select,alg}.go.txt from the GOROOT of the
simulation toolchain (go1.26.8): patched copies of three runtime files that
give the simulator ownership of (a) the poll order of `select`, (b) the
per-map seed and iteration offsets of Go maps, (c) the process-wide hash key.
With verifRandState == 0 (never seeded) the behaviour is the stock one.
Used only through `go test -overlay` when building the simulation worker."""
import os, subprocess, sys, json

V = os.path.dirname(os.path.dirname(os.path.abspath(__file__)))
go = "go1.26.8"
try:
    goroot = subprocess.check_output([go, "env", "GOROOT"], text=True, env=dict(os.environ, GOTOOLCHAIN="local")).strip()
except Exception:
    goroot = "/opt/veriftools/go1.26.8"
src = os.path.join(goroot, "src", "runtime")
out = os.path.join(V, "overlay")
os.makedirs(out, exist_ok=True)

def must_replace(s, old, new, name):
    if old not in s:
        sys.stderr.write("mkoverlay: pattern not found in %s: %r\n" % (name, old[:60]))
        sys.exit(2)
    return s.replace(old, new, 1)

# rand.go
s = open(os.path.join(src, "rand.go")).read()
s = must_replace(s, '''//go:linkname maps_rand internal/runtime/maps.rand
func maps_rand() uint64 {
	return rand()
}
''', '''//go:linkname maps_rand internal/runtime/maps.rand
func maps_rand() uint64 {
	if verifRandState != 0 {
		// Stateless: every map gets the same seed and every iteration the same
		// offsets, so a map's iteration order is a function of the run seed and
		// of the map's own history, not of which goroutine asked first.
		return verifMix(verifRandState)
	}
	return rand()
}

// --- simulation overlay (/verif/tools/mkoverlay.py) ---

// verifRandState, when non-zero, replaces the runtime's own randomness for map
// seeds / iteration offsets and for the poll order of select. Set by the
// simulation harness through linkname.
var verifRandState uint64

//go:linkname verifSetSeed
func verifSetSeed(s uint64) {
	verifRandState = s
}

// verifGetTag / verifSetTag: a label the harness puts on a goroutine; goroutines
// it creates inherit it (runtime.newproc1), so every goroutine of a simulated
// node carries the node's label.
//
//go:linkname verifGetTag
func verifGetTag() uint64 { return getg().verifTag }

//go:linkname verifSetTag
func verifSetTag(t uint64) { getg().verifTag = t }

// verifNextCount returns a per-goroutine counter (starts at 1 for every new goroutine).
//
//go:linkname verifNextCount
func verifNextCount() uint64 {
	gp := getg()
	gp.verifCnt++
	return gp.verifCnt
}

//go:nosplit
func verifMix(z uint64) uint64 {
	z = (z ^ (z >> 30)) * 0xbf58476d1ce4e5b9
	z = (z ^ (z >> 27)) * 0x94d049bb133111eb
	return z ^ (z >> 31)
}

// verifSelectRandn decides the poll order of a select: a function of the run
// seed, the shape of the select, (inside a synctest bubble) the current fake
// time, and a per-goroutine count of selects executed (a field added to g and
// reset when a goroutine is created), so that a select in a loop does not make
// the same choice forever while no shared state couples goroutines.
//
//go:nosplit
func verifSelectRandn(n uint32, ncases int) uint32 {
	if s := verifRandState; s != 0 {
		var now int64
		if b := getg().bubble; b != nil {
			now = b.now
		}
		gp := getg()
		if n == 1 {
			gp.verifSel++ // once per select statement
		}
		z := s ^ uint64(now)*0x9e3779b97f4a7c15 ^ uint64(ncases)<<40 ^ uint64(n)<<32 ^ uint64(gp.verifSel)<<8
		return uint32(verifMix(z) % uint64(n))
	}
	return cheaprandn(n)
}
''', "rand.go")
open(os.path.join(out, "rand.go.txt"), "w").write(s)

# select.go
s = open(os.path.join(src, "select.go")).read()
s = must_replace(s, "j := cheaprandn(uint32(norder + 1))", "j := verifSelectRandn(uint32(norder+1), len(scases))", "select.go")
open(os.path.join(out, "select.go.txt"), "w").write(s)

# alg.go: fixed AES hash key
s = open(os.path.join(src, "alg.go")).read()
s = must_replace(s, '''	for i := range key {
		key[i] = bootstrapRand()
	}''', '''	for i := range key {
		key[i] = 0x9e3779b97f4a7c15 * uint64(i+1) // simulation overlay: fixed hash key
	}''', "alg.go")
open(os.path.join(out, "alg.go.txt"), "w").write(s)

# runtime2.go: per-goroutine select counter at the end of g
s = open(os.path.join(src, "runtime2.go")).read()
s = must_replace(s, """	valgrindStackID uintptr
}""", """	valgrindStackID uintptr

	verifSel uint32 // simulation overlay: selects executed by this goroutine
	verifTag uint64 // simulation overlay: inherited label (simulated node) of this goroutine
	verifCnt uint64 // simulation overlay: per-goroutine draw counter of the harness
}""", "runtime2.go")
open(os.path.join(out, "runtime2.go.txt"), "w").write(s)

# proc.go: reset the counter when a goroutine is created
s = open(os.path.join(src, "proc.go")).read()
s = must_replace(s, "	newg.gopc = callerpc\n", "	newg.gopc = callerpc\n	newg.verifSel = 0 // simulation overlay\n	newg.verifCnt = 0\n	newg.verifTag = 0\n	if callergp != nil {\n		newg.verifTag = callergp.verifTag\n	}\n", "proc.go")
# sysmon must not take the P away from a goroutine that is in a (file) syscall
# or has been running for 10 ms: with GOMAXPROCS=1 that would let real
# durations decide which goroutine of the simulation runs next
s = must_replace(s, "func retake(now int64) uint32 {\n	n := 0\n", "func retake(now int64) uint32 {\n	if verifRandState != 0 {\n		return 0 // simulation overlay\n	}\n	n := 0\n", "proc.go retake")
# no runnext slot in a seeded run: a goroutine woken by a real-time timer of the
# runtime (scavenger, ...) would otherwise displace the simulation's goroutine
# that sits in runnext and thereby reorder the simulation's goroutines; and
# with sysmon's preemption disabled runnext must be avoided anyway (see the
# runtime's own comment in runqput)
s = must_replace(s, "func runqput(pp *p, gp *g, next bool) {\n	if !haveSysmon && next {", "func runqput(pp *p, gp *g, next bool) {\n	if (!haveSysmon || verifRandState != 0) && next {", "proc.go runqput")
# The scheduler looks at the global run queue on every 61st scheduling round of the P,
# and that counter also ticks for goroutines driven by real time (scavenger, sysmon
# wake-ups). runtime.Gosched puts the yielding goroutine on the global queue, so which
# of its peers run before it resumes would depend on real time in 1 of 61 cases. In a
# seeded run a yielding goroutine goes to the back of the local queue and the global
# queue is only consulted when the local one is empty.
s = must_replace(s, "	if pp.schedtick%61 == 0 && !sched.runq.empty() {", "	if verifRandState == 0 && pp.schedtick%61 == 0 && !sched.runq.empty() {", "proc.go schedtick")
s = must_replace(s, """	} else {
		lock(&sched.lock)
		globrunqput(gp)
		unlock(&sched.lock)
	}

	if mainStarted {
		wakep()
	}

	schedule()
}

// Gosched continuation on g0.""", """	} else if verifRandState != 0 {
		runqput(pp, gp, false) // simulation overlay
	} else {
		lock(&sched.lock)
		globrunqput(gp)
		unlock(&sched.lock)
	}

	if mainStarted {
		wakep()
	}

	schedule()
}

// Gosched continuation on g0.""", "proc.go goschedImpl")
open(os.path.join(out, "proc.go.txt"), "w").write(s)

# sema.go: sync.Mutex switches to starvation mode after 1 ms of REAL waiting time,
# which changes who gets the lock next. Inside a bubble of a seeded run the
# mutex sees the bubble's fake time instead (which does not advance while
# anybody is runnable), so the hand-over policy no longer depends on real time.
s = open(os.path.join(src, "sema.go")).read()
s = must_replace(s, """func internal_sync_nanotime() int64 {
	return nanotime()
}""", """func internal_sync_nanotime() int64 {
	if verifRandState != 0 {
		if b := getg().bubble; b != nil {
			return b.now // simulation overlay
		}
	}
	return nanotime()
}""", "sema.go")
open(os.path.join(out, "sema.go.txt"), "w").write(s)

# time.go: Go 1.26 orders fake timers that fire at the same instant by a per-timer
# random value drawn from the M's cheaprand (seeded from OS entropy). In a seeded run
# timers of the same instant run in the order in which they were armed.
s = open(os.path.join(src, "time.go")).read()
s = must_replace(s, """			t.rand = cheaprand()
""", """			if verifRandState != 0 {
				verifTimerSeq++ // simulation overlay: first armed, first run
				t.rand = verifTimerSeq
			} else {
				t.rand = cheaprand()
			}
""", "time.go")
s = must_replace(s, "type timerWhen struct {", "var verifTimerSeq uint32 // simulation overlay (one P, no preemption in a seeded run)\n\ntype timerWhen struct {", "time.go")
open(os.path.join(out, "time.go.txt"), "w").write(s)

json.dump({"Replace": {
    "@GOROOT@/src/runtime/time.go": "@OVERLAY@/time.go.txt",
    "@GOROOT@/src/runtime/sema.go": "@OVERLAY@/sema.go.txt",
    "@GOROOT@/src/runtime/runtime2.go": "@OVERLAY@/runtime2.go.txt",
    "@GOROOT@/src/runtime/proc.go": "@OVERLAY@/proc.go.txt",
    "@GOROOT@/src/runtime/rand.go": "@OVERLAY@/rand.go.txt",
    "@GOROOT@/src/runtime/select.go": "@OVERLAY@/select.go.txt",
    "@GOROOT@/src/runtime/alg.go": "@OVERLAY@/alg.go.txt",
}}, open(os.path.join(out, "overlay.json.in"), "w"), indent=1)
print("overlay written to", out)
