package anndbverif

import (
	"math/rand"
	"net"
	"sync"
	_ "unsafe"

	_ "github.com/coreos/etcd/raft"
	uuid "github.com/satori/go.uuid"
)

type netConn = net.Conn

// etcd raft draws its randomized election timeout from a package-level source
// seeded from the wall clock at init; the simulator reseeds it per run.
type lockedRand struct {
	mu   sync.Mutex
	rand *rand.Rand
}

//go:linkname raftGlobalRand github.com/coreos/etcd/raft.globalRand
var raftGlobalRand *lockedRand

func reseedRaftRand(seed uint64) {
	raftGlobalRand.mu.Lock()
	raftGlobalRand.rand = rand.New(rand.NewSource(int64(seed>>1) | 1))
	raftGlobalRand.mu.Unlock()
}

// satori/go.uuid draws V4 ids from crypto/rand through a package-level
// generator; the simulator replaces it by a seeded counter-hash generator so
// that dataset / partition / notification ids are a function of the run seed.
//
//go:linkname uuidGlobal github.com/satori/go.uuid.global
var uuidGlobal uuid.Generator

type seededUUID struct {
	mu   sync.Mutex
	seed uint64
	n    uint64
}

var theUUIDGen = &seededUUID{}

func (g *seededUUID) next() uuid.UUID {
	g.mu.Lock()
	g.n++
	n := g.n
	seed := g.seed
	g.mu.Unlock()
	var u uuid.UUID
	a := mix64(seed ^ n*0x9e3779b97f4a7c15)
	b := mix64(a ^ 0xdeadbeefcafef00d ^ n)
	for i := 0; i < 8; i++ {
		u[i] = byte(a >> (8 * i))
		u[8+i] = byte(b >> (8 * i))
	}
	u.SetVersion(uuid.V4)
	u.SetVariant(uuid.VariantRFC4122)
	return u
}

func mix64(z uint64) uint64 {
	z = (z ^ (z >> 30)) * 0xbf58476d1ce4e5b9
	z = (z ^ (z >> 27)) * 0x94d049bb133111eb
	return z ^ (z >> 31)
}

func (g *seededUUID) NewV1() uuid.UUID                          { return g.next() }
func (g *seededUUID) NewV2(domain byte) uuid.UUID               { return g.next() }
func (g *seededUUID) NewV3(ns uuid.UUID, name string) uuid.UUID { return g.next() }
func (g *seededUUID) NewV4() uuid.UUID                          { return g.next() }
func (g *seededUUID) NewV5(ns uuid.UUID, name string) uuid.UUID { return g.next() }

var origUUIDGen uuid.Generator

func installUUIDGenerator() {
	origUUIDGen = uuidGlobal
	uuidGlobal = theUUIDGen
}

func resetUUIDGenerator(seed uint64) {
	theUUIDGen.mu.Lock()
	theUUIDGen.seed = seed
	theUUIDGen.n = 0
	theUUIDGen.mu.Unlock()
}
