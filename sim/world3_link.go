package anndbverif

import (
	"math/rand"
	"net"
	"sync"
	_ "unsafe"

	_ "github.com/coreos/etcd/raft"
	uuid "github.com/satori/go.uuid"
)

type netConn = net.Conn

// etcd raft draws its randomized election timeout from a package-level source
// seeded from the wall clock at init; the simulator reseeds it per run.
type lockedRand struct {
	mu   sync.Mutex
	rand *rand.Rand
}

//go:linkname raftGlobalRand github.com/coreos/etcd/raft.globalRand
var raftGlobalRand *lockedRand

// tagSource: every draw is a function of the run seed, the label of the calling
// goroutine (the simulated node) and that goroutine's own draw count. The
// draws are made on a group's raft goroutine, so a group's sequence of
// election timeouts does not depend on what other groups or nodes draw.
type tagSource struct{ seed uint64 }

func (t *tagSource) Int63() int64 {
	z := mix64(t.seed ^ runtimeVerifGetTag()*0x9e3779b97f4a7c15 ^ runtimeVerifNextCount()*0xd6e8feb86659fd93)
	return int64(z >> 1)
}
func (t *tagSource) Seed(int64) {}

func reseedRaftRand(seed uint64) {
	raftGlobalRand.mu.Lock()
	raftGlobalRand.rand = rand.New(&tagSource{seed: seed | 1})
	raftGlobalRand.mu.Unlock()
}

// satori/go.uuid draws V4 ids from crypto/rand through a package-level
// generator; the simulator replaces it by a seeded counter-hash generator so
// that dataset / partition / notification ids are a function of the run seed.
//
//go:linkname uuidGlobal github.com/satori/go%2euuid.global
var uuidGlobal uuid.Generator

type seededUUID struct {
	mu   sync.Mutex
	seed uint64
	n    map[uint64]uint64 // per goroutine label (simulated node): ids drawn so far
}

var theUUIDGen = &seededUUID{n: map[uint64]uint64{}}

// next derives the id from the run seed, the label of the calling goroutine
// (the simulated node it belongs to) and that label's own counter, so that the
// ids a node draws do not depend on what other nodes do concurrently.
func (g *seededUUID) next() uuid.UUID {
	tag := runtimeVerifGetTag()
	g.mu.Lock()
	g.n[tag]++
	n := g.n[tag]
	seed := g.seed
	g.mu.Unlock()
	var u uuid.UUID
	a := mix64(seed ^ n*0x9e3779b97f4a7c15 ^ tag*0xd6e8feb86659fd93)
	b := mix64(a ^ 0xdeadbeefcafef00d ^ n)
	for i := 0; i < 8; i++ {
		u[i] = byte(a >> (8 * i))
		u[8+i] = byte(b >> (8 * i))
	}
	u.SetVersion(uuid.V4)
	u.SetVariant(uuid.VariantRFC4122)
	return u
}

func mix64(z uint64) uint64 {
	z = (z ^ (z >> 30)) * 0xbf58476d1ce4e5b9
	z = (z ^ (z >> 27)) * 0x94d049bb133111eb
	return z ^ (z >> 31)
}

func (g *seededUUID) NewV1() uuid.UUID                          { return g.next() }
func (g *seededUUID) NewV2(domain byte) uuid.UUID               { return g.next() }
func (g *seededUUID) NewV3(ns uuid.UUID, name string) uuid.UUID { return g.next() }
func (g *seededUUID) NewV4() uuid.UUID                          { return g.next() }
func (g *seededUUID) NewV5(ns uuid.UUID, name string) uuid.UUID { return g.next() }

var origUUIDGen uuid.Generator

func installUUIDGenerator() {
	origUUIDGen = uuidGlobal
	uuidGlobal = theUUIDGen
}

func resetUUIDGenerator(seed uint64) {
	theUUIDGen.mu.Lock()
	theUUIDGen.seed = seed
	theUUIDGen.n = map[uint64]uint64{}
	theUUIDGen.mu.Unlock()
}
