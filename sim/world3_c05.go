package anndbverif

// C05 (raft glue keeps consensus safety) and C03 (acknowledged writes survive
// crash at any instant) on World III.

import (
	"context"
	"encoding/json"
	"fmt"
	"regexp"
	"sort"
	"strings"
	"time"

	"github.com/anishathalye/porcupine"
	pb "github.com/marekgalovic/anndb/protobuf"
	uuid "github.com/satori/go.uuid"

	"simrt"
)

func w3DeathSig(prop string) func(stderr string, cs json.RawMessage) (string, string) {
	return func(stderr string, cs json.RawMessage) (string, string) {
		if k := strings.Index(stderr, "panic: SETUP-WEDGED"); k >= 0 {
			return "control-plane-wedged/server-setup-never-returned", strings.SplitN(stderr[k:], "\n", 2)[0] + "\nblocked goroutines of the product:\n" + tail(stderr[:k], 3000)
		}
		i := strings.Index(stderr, "panic: ")
		j := strings.Index(stderr, "fatal error: ")
		if i < 0 && j < 0 {
			return "", ""
		}
		if i < 0 || (j >= 0 && j < i) {
			i = j
		}
		rest := stderr[i:]
		first := strings.SplitN(rest, "\n", 2)[0]
		// innermost frame of the repository (or of a dependency called by it)
		fr := "unknown"
		for _, l := range strings.Split(rest, "\n") {
			l = strings.TrimSpace(l)
			if strings.HasPrefix(l, "github.com/marekgalovic/anndb") && !strings.Contains(l, "anndbverif") {
				if k := strings.LastIndex(l, "("); k > 0 {
					l = l[:k]
				}
				fr = strings.TrimPrefix(l, "github.com/marekgalovic/anndb/")
				break
			}
		}
		if fr == "unknown" && strings.Contains(rest, "anndbverif.") && !strings.Contains(rest, "github.com/coreos/etcd/raft") {
			return "", "" // a harness bug, not an observation
		}
		if fr == "unknown" {
			for _, l := range strings.Split(rest, "\n") {
				l = strings.TrimSpace(l)
				if strings.HasPrefix(l, "github.com/coreos/etcd/raft.") {
					if k := strings.LastIndex(l, "("); k > 0 {
						l = l[:k]
					}
					fr = l
					break
				}
			}
		}
		msg := first
		if len(msg) > 160 {
			msg = msg[:160]
		}
		sig := "process-died/" + fr + "/" + firstWords(msg, 6)
		if strings.Contains(fr, "raftLog).commitTo") && strings.Contains(stderr, "VERIF-MARK group-of-a-deleted-dataset-loaded-again") {
			// raft's "log lost" panic, in a run in which a node loaded again - with an empty log,
			// while replaying its catalogue - the group of a dataset whose log it had deleted
			sig = "deleted-group-loaded-again-during-replay/" + sig
		}
		return sig, "a product goroutine brought the process down: " + tail(rest, 1800)
	}
}

var hexRe = regexp.MustCompile(`\(?0x[0-9a-fA-F]+\)?`)

func firstWords(s string, n int) string {
	s = hexRe.ReplaceAllString(s, "")
	f := strings.Fields(s)
	if len(f) > n {
		f = f[:n]
	}
	out := strings.Join(f, "-")
	// strip volatile numbers / addresses
	var sb strings.Builder
	for _, r := range out {
		if r >= '0' && r <= '9' {
			continue
		}
		sb.WriteRune(r)
	}
	return sb.String()
}

// genWrites generates client writes over a small id universe.
func genWrites(r *simrt.Rand, nodes, nOps, nIds int, ver *int, asyncP float64) []W3Op {
	var ops []W3Op
	for i := 0; i < nOps; i++ {
		*ver++
		op := W3Op{Node: r.Range(1, nodes)}
		x := r.Intn(100)
		switch {
		case x < 40:
			op.K = "ins"
		case x < 55:
			op.K = "upd"
		case x < 70:
			op.K = "rem"
		case x < 82:
			op.K = "bins"
		case x < 91:
			op.K = "bupd"
		default:
			op.K = "brem"
		}
		if strings.HasPrefix(op.K, "b") {
			k := r.Range(1, 4)
			seen := map[int]bool{}
			for j := 0; j < k; j++ {
				id := r.Intn(nIds)
				if seen[id] {
					continue
				}
				seen[id] = true
				*ver++
				op.Ids = append(op.Ids, id)
				op.Vers = append(op.Vers, *ver)
			}
		} else {
			op.Ids = []int{r.Intn(nIds)}
			op.Vers = []int{*ver}
		}
		if r.Bool(asyncP) {
			op.Async = true
			op.Ms = r.Range(0, 40)
		}
		ops = append(ops, op)
	}
	return ops
}

func genNet(r *simrt.Rand) NetCfg {
	n := NetCfg{MinLatMs: 1, JitterMs: r.Range(1, 30)}
	if r.Bool(0.6) {
		n.DropReq = []float64{0.01, 0.05, 0.2}[r.Intn(3)]
	}
	if r.Bool(0.6) {
		n.DropResp = []float64{0.01, 0.05, 0.2}[r.Intn(3)]
	}
	if r.Bool(0.5) {
		n.Dup = []float64{0.02, 0.1}[r.Intn(2)]
	}
	if r.Bool(0.5) {
		n.Late = []float64{0.01, 0.05}[r.Intn(2)]
	}
	if r.Bool(0.3) {
		n.CutStream = 0.15
	}
	return n
}

func genC05(r *simrt.Rand, tier string) json.RawMessage {
	c := W3Case{Nodes: r.Range(1, 3), Dim: 2, Space: 0, Faults: true}
	if r.Bool(0.15) {
		c.Nodes = r.Range(4, 5)
	}
	c.Cfg = W3Cfg{Seed: r.Uint64(), Net: genNet(r), SnapshotOffset: []int64{3, 10, 5000}[r.Intn(3)], YieldP: []int{0, 5, 25}[r.Intn(3)]}
	c.Partitions = r.Range(1, 2)
	c.Replicas = []int{1, 3, 3}[r.Intn(3)]
	if c.Replicas > c.Nodes {
		c.Replicas = c.Nodes
	}
	ver := 0
	nIds := r.Range(3, 8)
	nSeg := r.Range(2, 5)
	for seg := 0; seg < nSeg; seg++ {
		c.Ops = append(c.Ops, genWrites(r, c.Nodes, r.Range(1, 5), nIds, &ver, 0.3)...)
		switch r.Intn(11) {
		case 9:
			// the node's disk refuses one of its next writes; failing loudly and stopping is the
			// legal reaction, going on as if the write had happened is not
			n := r.Range(1, c.Nodes)
			c.Ops = append(c.Ops, W3Op{K: "diskerr", Node: n, N: r.Range(1, 6), A: r.Intn(2)})
			c.Ops = append(c.Ops, genWrites(r, c.Nodes, r.Range(1, 4), nIds, &ver, 0.3)...)
			c.Ops = append(c.Ops, W3Op{K: "wait", Ms: r.Range(100, 2500)}, W3Op{K: "restart", Node: n})
		case 0:
			c.Ops = append(c.Ops, W3Op{K: "crash", Node: r.Range(1, c.Nodes)})
		case 1:
			n := r.Range(1, c.Nodes)
			c.Ops = append(c.Ops, W3Op{K: "crash", Node: n}, W3Op{K: "wait", Ms: r.Range(100, 3000)}, W3Op{K: "restart", Node: n})
		case 2:
			if c.Nodes > 1 {
				a := r.Range(1, c.Nodes)
				b := a%c.Nodes + 1
				c.Ops = append(c.Ops, W3Op{K: "part", A: a, B: b})
			}
		case 3:
			c.Ops = append(c.Ops, W3Op{K: "isolate", Node: r.Range(1, c.Nodes)})
		case 4:
			c.Ops = append(c.Ops, W3Op{K: "heal"})
		case 5:
			c.Ops = append(c.Ops, W3Op{K: "wait", Ms: r.Range(2000, 12000)}) // lets the 10 s snapshot ticker fire
		case 6:
			c.Ops = append(c.Ops, W3Op{K: "crashall"}, W3Op{K: "wait", Ms: 500})
			for i := 1; i <= c.Nodes; i++ {
				c.Ops = append(c.Ops, W3Op{K: "restart", Node: i})
			}
		case 7:
			if c.Nodes > 1 {
				a := r.Range(1, c.Nodes)
				b := a%c.Nodes + 1
				c.Ops = append(c.Ops, W3Op{K: "oneway", A: a, B: b})
			}
		case 8:
			// the node dies at one of its next durable-write boundaries (inside whatever the
			// following operations make it write) and comes back a little later
			n := r.Range(1, c.Nodes)
			c.Ops = append(c.Ops, W3Op{K: "crashat", Node: n, N: r.Range(1, 14)})
			c.Ops = append(c.Ops, genWrites(r, c.Nodes, r.Range(1, 4), nIds, &ver, 0.3)...)
			c.Ops = append(c.Ops, W3Op{K: "wait", Ms: r.Range(100, 2500)}, W3Op{K: "restart", Node: n})
		}
	}
	if r.Bool(0.12) {
		// writes that straddle the partition groups' local snapshot (see C03): the shadow
		// state machines tell whether a snapshot holds what the log up to its label produces
		c.Cfg.SnapshotOffset = []int64{1, 2}[r.Intn(2)]
		c.Cfg.Deep, c.Cfg.Burst = []int{160, 400}[r.Intn(2)], []int{0, 50}[r.Intn(2)]
		c.Ops = append(c.Ops, W3Op{K: "heal"}, W3Op{K: "wait-tick", Ms: r.Range(100, 350)})
		burst := genWrites(r, c.Nodes, r.Range(20, 40), 2, &ver, 1.0)
		for i := range burst {
			burst[i].Ms = r.Range(4, 30)
		}
		c.Ops = append(c.Ops, burst...)
		c.Ops = append(c.Ops, W3Op{K: "wait", Ms: 1500})
	}
	if c.Nodes >= 3 && c.Replicas == 3 && r.Bool(0.25) {
		// a replica is cut off, the others move on and compact their logs past it; when the
		// network heals it is caught up by a snapshot - and dies at one of the durable writes
		// of that catch-up, then restarts
		lag := r.Range(1, c.Nodes)
		c.Cfg.SnapshotOffset = []int64{1, 2, 3}[r.Intn(3)]
		c.Ops = append(c.Ops, W3Op{K: "heal"}, W3Op{K: "wait", Ms: 1500}, W3Op{K: "isolate", Node: lag})
		ws := genWrites(r, c.Nodes, r.Range(3, 6), nIds, &ver, 0)
		for i := range ws {
			if ws[i].Node == lag {
				ws[i].Node = lag%c.Nodes + 1
			}
		}
		c.Ops = append(c.Ops, ws...)
		c.Ops = append(c.Ops, W3Op{K: "wait", Ms: 10500}, W3Op{K: "crashat", Node: lag, N: r.Range(1, 10)}, W3Op{K: "heal"}, W3Op{K: "wait", Ms: 4000}, W3Op{K: "restart", Node: lag}, W3Op{K: "wait", Ms: 1000})
	}
	b, _ := json.Marshal(c)
	return b
}

// finalProposalCommits: after the cluster settled, a fresh write through every
// alive node must succeed.
func (r *W3Run) finalProposalCommits() {
	info := r.ds[0]
	if info == nil || !info.ackedCreate {
		return
	}
	for _, n := range r.aliveNodes() {
		var last *histOp
		ok := false
		// a proposal may still be lost to a late leader change: the client retries
		for attempt := 0; attempt < 6 && !ok; attempt++ {
			id := 900000 + n.idx*10 + attempt
			h := &histOp{op: W3Op{K: "ins", Node: n.idx, Ids: []int{id}, Vers: []int{1}}, idx: -1}
			r.hist = append(r.hist, h)
			r.startWrite(h)
			r.s.runUntil(func() bool { return h.cop == nil || h.cop.done }, 30*time.Second)
			r.finishOp(h)
			last = h
			ok = h.done && h.err == nil
		}
		if !ok {
			r.viol("no-progress-after-faults-stopped/write-fails", "all faults stopped, every node restarted and the cluster converged, but six successive inserts through n%d all failed, the last with: %v", n.idx, last.err)
			return
		}
	}
}

func execC05(raw json.RawMessage, wantLog bool) (out Outcome) {
	var c W3Case
	if err := json.Unmarshal(raw, &c); err != nil {
		out.Harness = err.Error()
		return
	}
	runScenario(&c, "C05", &out, wantLog, nil, func(r *W3Run) {
		if len(out.Violations) > 0 {
			return
		}
		if !r.settle() {
			if len(out.Violations) == 0 {
				r.viol("no-convergence-after-faults-stopped/"+stuckClass(r), "faults stopped and every node restarted, but replicas did not converge within 120 simulated seconds: %s", r.describeStuck())
			}
			r.checkNoDeath()
			return
		}
		r.checkNoDeath()
		if len(out.Violations) == 0 {
			r.finalProposalCommits()
		}
		if len(out.Violations) == 0 && r.ds[0] != nil {
			// the acknowledged final writes reach every replica shortly after
			r.s.runFor(2 * time.Second)
			if !r.s.runUntil(r.converged, 60*time.Second) {
				r.viol("no-convergence-after-faults-stopped/"+stuckClass(r), "replicas did not converge after the final writes: %s", r.describeStuck())
				return
			}
			r.checkReplicasEqual("C05")
		}
	})
	out.Nontrivial = out.Stats["entries_applied"] > 10
	return
}

func (r *W3Run) describeStuck() string {
	var sb strings.Builder
	for _, n := range r.s.nodes {
		if !n.alive || n.parts == nil {
			fmt.Fprintf(&sb, "n%d down; ", n.idx)
			continue
		}
		for _, g := range n.parts.RaftTransport.VerifGroups() {
			st := g.VerifStatus()
			fmt.Fprintf(&sb, "n%d/%s %s term=%d commit=%d applied=%d lead=n%d; ", n.idx, shortG(g.VerifId()), st.RaftState, st.Term, st.Commit, st.Applied, r.s.nodeIdx(st.Lead))
		}
		ds, ok := n.parts.DatasetManager.VerifDatasets()
		if !ok {
			fmt.Fprintf(&sb, "n%d catalogue lock held while every goroutine is blocked; ", n.idx)
		}
		for _, d := range ds {
			for _, p := range d.Partitions {
				for _, nid := range p.NodeIds {
					if nid == n.id && !p.RaftLoaded {
						fmt.Fprintf(&sb, "n%d partition %s not loaded; ", n.idx, shortG(p.Id))
					}
				}
			}
		}
	}
	return sb.String()
}

// checkReplicasEqual: after settling, all alive replicas of each partition hold identical contents.
func (r *W3Run) checkReplicasEqual(prop string) {
	for slot, info := range r.ds {
		if !info.ackedCreate || info.ackedDelete {
			continue
		}
		for pid, reps := range r.replicaDumps(info.id) {
			var ref *string
			refNode := 0
			nodes := make([]int, 0, len(reps))
			for n := range reps {
				nodes = append(nodes, n)
			}
			sort.Ints(nodes)
			for _, n := range nodes {
				k := contentsKey(reps[n])
				if ref == nil {
					ref, refNode = &k, n
				} else if *ref != k {
					r.out.Violate(prop, "replicas-diverge-after-settling", "dataset#%d partition %s: n%d and n%d hold different contents after convergence: %s", slot, shortG(pid), refNode, n, diffContents(reps[refNode], reps[n]))
					return
				}
			}
		}
	}
}

// ---------------------------------------------------------------------------
// C03

type regIn struct {
	kind string // ins upd rem read
	id   int
	ver  int
}
type regOut struct {
	res     string // ok exists notfound unknown rejected ; read: present/absent
	present bool
	ver     int
}

var regModel = porcupine.NondeterministicModel{
	Partition: func(history []porcupine.Operation) [][]porcupine.Operation {
		m := map[int][]porcupine.Operation{}
		var ids []int
		for _, o := range history {
			id := o.Input.(regIn).id
			if _, ok := m[id]; !ok {
				ids = append(ids, id)
			}
			m[id] = append(m[id], o)
		}
		sort.Ints(ids)
		out := make([][]porcupine.Operation, 0, len(ids))
		for _, id := range ids {
			out = append(out, m[id])
		}
		return out
	},
	Init: func() []interface{} { return []interface{}{-1} },
	Step: func(state, input, output interface{}) []interface{} {
		st := state.(int)
		in := input.(regIn)
		out := output.(regOut)
		same := []interface{}{st}
		switch in.kind {
		case "read":
			if (st != -1) == out.present && (st == -1 || st == out.ver) {
				return same
			}
			return nil
		case "ins":
			switch out.res {
			case "ok":
				if st == -1 {
					return []interface{}{in.ver}
				}
				return nil
			case "exists":
				if st != -1 {
					return same
				}
				return nil
			case "unknown":
				if st == -1 {
					return []interface{}{st, in.ver}
				}
				return same
			case "rejected":
				return same
			}
		case "upd":
			switch out.res {
			case "ok":
				if st != -1 {
					return []interface{}{in.ver}
				}
				return nil
			case "notfound":
				if st == -1 {
					return same
				}
				return nil
			case "unknown":
				if st != -1 {
					return []interface{}{st, in.ver}
				}
				return same
			case "rejected":
				return same
			}
		case "rem":
			switch out.res {
			case "ok":
				if st != -1 {
					return []interface{}{-1}
				}
				return nil
			case "notfound":
				if st == -1 {
					return same
				}
				return nil
			case "unknown":
				if st != -1 {
					return []interface{}{st, -1}
				}
				return same
			case "rejected":
				return same
			}
		}
		return nil
	},
	Equal: func(a, b interface{}) bool { return a.(int) == b.(int) },
	DescribeOperation: func(input, output interface{}) string {
		in := input.(regIn)
		out := output.(regOut)
		if in.kind == "read" {
			return fmt.Sprintf("final-read(id#%d) -> present=%v v%d", in.id, out.present, out.ver)
		}
		return fmt.Sprintf("%s(id#%d v%d) -> %s", in.kind, in.id, in.ver, out.res)
	},
}

// durabilityOracle: the recovered contents must be explainable by the
// acknowledged history (optionally extended by in-flight writes).
func (r *W3Run) durabilityOracle(prop string) {
	info := r.ds[0]
	if info == nil || !info.ackedCreate {
		return
	}
	var hist []porcupine.Operation
	submitted := map[int]map[int]bool{}
	insVers := map[int]map[int]bool{} // id -> versions carried by inserts of it
	var maxRet uint64
	for _, h := range r.hist {
		if h.ret > maxRet {
			maxRet = h.ret
		}
		if h.inv > maxRet {
			maxRet = h.inv
		}
	}
	unknownRet := int64(maxRet + 10)
	readAt := int64(maxRet + 20)
	kindOf := map[string]string{"ins": "ins", "upd": "upd", "rem": "rem", "bins": "ins", "bupd": "upd", "brem": "rem"}
	for _, h := range r.hist {
		k, ok := kindOf[h.op.K]
		if !ok || h.op.DS != 0 {
			continue
		}
		for i, id := range h.op.Ids {
			ver := 0
			if i < len(h.op.Vers) {
				ver = h.op.Vers[i]
			}
			if submitted[id] == nil {
				submitted[id] = map[int]bool{}
			}
			if k != "rem" {
				submitted[id][ver] = true
			}
			if k == "ins" {
				if insVers[id] == nil {
					insVers[id] = map[int]bool{}
				}
				insVers[id][ver] = true
			}
			res := "unknown"
			ret := unknownRet
			if h.done {
				res = h.perId[id]
				if res == "" {
					res = "unknown"
				}
				if res != "unknown" {
					ret = int64(h.ret)
				}
			}
			inv := int64(h.inv)
			if inv == 0 {
				continue
			}
			if res == "ok" {
				r.out.Stat("acknowledged_writes", 1)
			}
			if res == "unknown" {
				r.out.Stat("indeterminate_writes", 1)
			}
			hist = append(hist, porcupine.Operation{ClientId: h.op.Node, Input: regIn{k, id, ver}, Call: inv, Output: regOut{res: res}, Return: ret})
		}
	}
	// final reads from the converged replicas
	dumps := r.replicaDumps(info.id)
	pids := make([]uuid.UUID, 0, len(dumps))
	for pid := range dumps {
		pids = append(pids, pid)
	}
	sort.Slice(pids, func(i, j int) bool { return pids[i].String() < pids[j].String() })
	found := map[int]int{}
	byUUID := map[uuid.UUID]int{}
	for id := range submitted {
		byUUID[idOf(id)] = id
	}
	for _, pid := range pids {
		reps := dumps[pid]
		nodes := make([]int, 0, len(reps))
		for n := range reps {
			nodes = append(nodes, n)
		}
		sort.Ints(nodes)
		if len(nodes) == 0 {
			continue
		}
		for _, n := range nodes[1:] {
			if contentsKey(reps[nodes[0]]) != contentsKey(reps[n]) {
				r.out.Violate(prop, "replicas-diverge-after-recovery", "partition %s: n%d and n%d differ after recovery: %s", shortG(pid), nodes[0], n, diffContents(reps[nodes[0]], reps[n]))
				return
			}
		}
		for _, v := range reps[nodes[0]].Vertices {
			id, ok := byUUID[v.Id]
			if !ok {
				r.out.Violate(prop, "never-submitted-item-present", "partition %s holds id %s which no client ever submitted", shortG(pid), v.Id)
				return
			}
			ver := -2
			if len(v.Vector) > 0 {
				ver = int(v.Vector[0])
			}
			if !submitted[id][ver] {
				r.out.Violate(prop, "never-submitted-value-present", "id#%d holds a vector (version %d) that no client ever submitted", id, ver)
				return
			}
			want := vecOf(id, ver, info.dim)
			for j := range want {
				if j < len(v.Vector) && want[j] != v.Vector[j] {
					r.out.Violate(prop, "corrupted-value", "id#%d version %d: component %d is %v, submitted %v", id, ver, j, v.Vector[j], want[j])
					return
				}
			}
			// the metadata that travelled with that version (and, for updates, what the
			// partition must have kept of the older metadata) came back as well
			if why := metaProblem(id, ver, v.Metadata, insVers[id]); why != "" {
				r.out.Violate(prop, "wrong-metadata", "id#%d version %d in partition %s: %s", id, ver, shortG(pid), why)
				return
			}
			r.out.Stat("stored_items_whose_metadata_was_checked", 1)
			found[id] = ver
		}
	}
	ids := make([]int, 0, len(submitted))
	for id := range submitted {
		ids = append(ids, id)
	}
	for _, h := range r.hist {
		for _, id := range h.op.Ids {
			if submitted[id] == nil {
				submitted[id] = map[int]bool{}
				ids = append(ids, id)
			}
		}
	}
	sort.Ints(ids)
	for _, id := range ids {
		ver, present := found[id]
		hist = append(hist, porcupine.Operation{ClientId: 0, Input: regIn{"read", id, 0}, Call: readAt, Output: regOut{present: present, ver: ver}, Return: readAt + 1})
	}
	model := regModel.ToModel()
	res, infoL := porcupine.CheckOperationsVerbose(model, hist, 30*time.Second)
	r.out.Stat("durability_histories_checked", 1)
	switch res {
	case porcupine.Illegal:
		// find the offending id for the message
		bad := ""
		for _, part := range regModel.Partition(hist) {
			if ok, _ := porcupine.CheckOperationsVerbose(model, part, 10*time.Second); ok == porcupine.Illegal {
				var ds []string
				for _, o := range part {
					ds = append(ds, fmt.Sprintf("[%d,%d] %s", o.Call, o.Return, regModel.DescribeOperation(o.Input, o.Output)))
				}
				bad = strings.Join(ds, "; ")
				// classify: lost acknowledged write vs resurrected vs other
				break
			}
		}
		_ = infoL
		r.out.Violate(prop, "recovered-contents-not-explained-by-acknowledged-history/"+classifyLoss(bad), "after crash and recovery the contents contradict the acknowledged history: %s", bad)
	case porcupine.Unknown:
		r.out.Stat("porcupine_inconclusive", 1)
	}
}

func classifyLoss(desc string) string {
	// last acknowledged state vs final read
	ops := strings.Split(desc, "; ")
	final := ops[len(ops)-1]
	lastAck := ""
	for _, o := range ops[:len(ops)-1] {
		if strings.HasSuffix(o, "-> ok") {
			lastAck = o
		}
	}
	switch {
	case strings.Contains(final, "present=false") && (strings.Contains(lastAck, "ins(") || strings.Contains(lastAck, "upd(")):
		return "acknowledged-write-lost"
	case strings.Contains(final, "present=true") && strings.Contains(lastAck, "rem("):
		return "acknowledged-remove-lost"
	case strings.Contains(final, "present=true"):
		return "stale-or-wrong-version"
	}
	return "other"
}

type C03Case struct {
	W3        W3Case `json:"w3"`
	Enumerate bool   `json:"enumerate"`
	OnlyNode  int    `json:"only_node,omitempty"` // enumerate the crash points of this node only (0: of every node)
}

func genC03(r *simrt.Rand, tier string) json.RawMessage {
	c := W3Case{Nodes: []int{1, 1, 2, 3}[r.Intn(4)], Dim: 2, Space: 0}
	c.Cfg = W3Cfg{Seed: r.Uint64(), Net: NetCfg{MinLatMs: 1, JitterMs: r.Range(1, 10)}, SnapshotOffset: []int64{2, 4, 5000}[r.Intn(3)], YieldP: []int{0, 10}[r.Intn(2)]}
	c.Partitions = r.Range(1, 2)
	c.Replicas = []int{1, 3}[r.Intn(2)]
	if c.Replicas > c.Nodes {
		c.Replicas = c.Nodes
	}
	ver := 0
	c.Ops = genWrites(r, c.Nodes, r.Range(3, 9), r.Range(2, 5), &ver, 0.25)
	if c.Cfg.SnapshotOffset < 100 {
		// let the snapshot ticker fire in the middle of the history
		k := r.Range(1, len(c.Ops))
		ops := append([]W3Op(nil), c.Ops[:k]...)
		ops = append(ops, W3Op{K: "wait", Ms: 10500})
		c.Ops = append(ops, c.Ops[k:]...)
	}
	cc := C03Case{W3: c, Enumerate: true}
	if c.Nodes == 3 && c.Replicas == 3 && r.Bool(0.5) {
		// a replica that falls behind without crashing (cut off from the others), is passed by
		// the leader's compaction and is caught up by a snapshot when the network heals: the
		// durable writes of that catch-up (received snapshot, hard state, suffix) are then part
		// of the enumerated crash points
		lag := r.Range(1, 3)
		cc.W3.Cfg.SnapshotOffset = []int64{1, 2, 3}[r.Intn(3)]
		var ops []W3Op
		for _, op := range c.Ops {
			if op.K != "wait" {
				ops = append(ops, op)
			}
		}
		k := r.Range(1, len(ops))
		head := append([]W3Op(nil), ops[:k]...)
		head = append(head, W3Op{K: "isolate", Node: lag})
		for _, op := range ops[k:] {
			if op.Node == lag { // clients talk to the connected side
				op.Node = lag%3 + 1
			}
			op.Async = false
			head = append(head, op)
		}
		head = append(head, W3Op{K: "wait", Ms: 10500}, W3Op{K: "heal"}, W3Op{K: "wait", Ms: 4000})
		cc.W3.Ops = head
		if r.Bool(0.7) {
			cc.OnlyNode = lag
		}
		b, _ := json.Marshal(cc)
		return b
	}
	if r.Bool(0.25) {
		// writes that straddle the local snapshot: a burst of writes on very few ids, issued
		// every few tens of milliseconds across the instant at which the partition groups'
		// snapshot tickers fire; then everything restarts and recovers from snapshot + suffix
		cc.Enumerate = false
		cc.W3.Cfg.SnapshotOffset = []int64{1, 2}[r.Intn(2)]
		cc.W3.Cfg.Deep, cc.W3.Cfg.Burst = []int{160, 400}[r.Intn(2)], []int{0, 50}[r.Intn(2)]
		var ops []W3Op
		for _, op := range c.Ops {
			if op.K != "wait" {
				ops = append(ops, op)
			}
		}
		ops = append(ops, W3Op{K: "wait-tick", Ms: r.Range(100, 350)})
		burst := genWrites(r, c.Nodes, r.Range(20, 40), 2, &ver, 1.0)
		for i := range burst {
			burst[i].Ms = r.Range(4, 30)
		}
		ops = append(ops, burst...)
		ops = append(ops, W3Op{K: "wait", Ms: 1500}, W3Op{K: "crashall"}, W3Op{K: "wait", Ms: 300})
		for i := 1; i <= c.Nodes; i++ {
			ops = append(ops, W3Op{K: "restart", Node: i})
		}
		cc.W3.Ops = ops
		b, _ := json.Marshal(cc)
		return b
	}
	if r.Bool(0.35) { // sampled multi-fault variant instead of the enumeration
		cc.Enumerate = false
		cc.W3.Faults = true
		cc.W3.Cfg.Net = genNet(r)
		n := r.Range(1, c.Nodes)
		k := r.Range(1, len(cc.W3.Ops))
		ops := append([]W3Op(nil), cc.W3.Ops[:k]...)
		switch r.Intn(4) {
		case 3:
			// one of the node's next log writes fails (disk full); it restarts after the rest of the workload
			ops = append(ops, W3Op{K: "diskerr", Node: n, N: r.Range(1, 5), A: r.Intn(2)})
			cc.W3.Ops = append(cc.W3.Ops, W3Op{K: "wait", Ms: r.Range(100, 2000)}, W3Op{K: "restart", Node: n})
		case 0:
			ops = append(ops, W3Op{K: "crash", Node: n}, W3Op{K: "wait", Ms: r.Range(100, 2000)}, W3Op{K: "restart", Node: n})
		case 1:
			ops = append(ops, W3Op{K: "crashall"}, W3Op{K: "wait", Ms: 300})
			for i := 1; i <= c.Nodes; i++ {
				ops = append(ops, W3Op{K: "restart", Node: i})
			}
		case 2:
			ops = append(ops, W3Op{K: "crash", Node: n})
		}
		cc.W3.Ops = append(ops, cc.W3.Ops[k:]...)
	}
	b, _ := json.Marshal(cc)
	return b
}

func runC03Variant(c *W3Case, out *Outcome, wantLog bool) (hits map[int]int) {
	hits = map[int]int{}
	runScenario(c, "C03", out, wantLog, nil, func(r *W3Run) {
		for _, n := range r.s.nodes {
			hits[n.idx] = n.hookHit - r.baseHit[n.idx]
			if n.inc > 1 || !n.alive {
				hits[n.idx] = -1 // crashed: count not comparable
			}
		}
		if len(out.Violations) > 0 {
			return
		}
		// a second crash-restart of everything: recovery must also work from what recovery wrote
		if !r.settle() {
			if len(out.Violations) == 0 {
				r.viol("no-recovery/"+stuckClass(r), "after the crash, restart did not bring the replicas back within 120 simulated seconds: %s", r.describeStuck())
			}
			return
		}
		r.checkNoDeath()
		r.s.runFor(8 * time.Second)
		if len(out.Violations) == 0 {
			r.durabilityOracle("C03")
		}
	})
	return
}

func stuckClass(r *W3Run) string {
	for _, n := range r.s.nodes {
		if len(n.fatal) > 0 {
			return "log.Fatal"
		}
	}
	for _, n := range r.aliveNodes() {
		if _, ok := n.parts.DatasetManager.VerifDatasets(); !ok {
			return "catalogue-lock-held-forever"
		}
	}
	return "not-converged"
}

func execC03(raw json.RawMessage, wantLog bool) (out Outcome) {
	var c C03Case
	if err := json.Unmarshal(raw, &c); err != nil {
		out.Harness = err.Error()
		return
	}
	base := c.W3
	if c.W3.Crash != nil || !c.Enumerate {
		runC03Variant(&base, &out, wantLog)
		out.Nontrivial = out.Stats["acknowledged_writes"] > 0
		out.Stat("variants_executed", 1)
		return
	}
	// fault-free run: counts the durable-write boundaries of the workload per node
	hits := runC03Variant(&base, &out, wantLog)
	out.Stat("variants_executed", 1)
	if out.Harness != "" || len(out.Violations) > 0 {
		return
	}
	h0, log0, sim0 := out.TraceHash, out.Log, out.SimSeconds
	nodes := make([]int, 0, len(hits))
	for n := range hits {
		nodes = append(nodes, n)
	}
	sort.Ints(nodes)
	for _, n := range nodes {
		if c.OnlyNode != 0 && n != c.OnlyNode {
			continue
		}
		for pos := 1; pos <= 2*hits[n]; pos++ {
			v := base
			v.Crash = &CrashPoint{Node: n, Pos: pos}
			var vo Outcome
			runC03Variant(&v, &vo, false)
			out.Stat("variants_executed", 1)
			out.Stat("crash_points_enumerated", 1)
			out.SimSeconds += vo.SimSeconds
			for k, val := range vo.Stats {
				if strings.HasPrefix(k, "fault_") || k == "acknowledged_writes" || k == "indeterminate_writes" || k == "node_restarts" || k == "durability_histories_checked" || k == "follower_installed_snapshot" {
					out.Stat(k, val)
				}
			}
			if vo.Harness != "" {
				out.Harness = vo.Harness
				return
			}
			if len(vo.Violations) > 0 {
				for _, x := range vo.Violations {
					x.Msg = fmt.Sprintf("[crash of n%d at durable-write boundary position %d] %s", n, pos, x.Msg)
					out.Violations = append(out.Violations, x)
				}
				out.TraceHash, out.Log = h0, log0
				return
			}
		}
	}
	out.TraceHash, out.Log = h0, log0
	_ = sim0
	out.Nontrivial = out.Stats["crash_points_enumerated"] > 0
	return
}

func shrinkW3Ops(c W3Case, emit func(W3Case)) {
	n := len(c.Ops)
	for chunk := n / 2; chunk >= 1; chunk /= 2 {
		for i := 0; i+chunk <= n; i += chunk {
			nc := c
			nc.Ops = append(append([]W3Op(nil), c.Ops[:i]...), c.Ops[i+chunk:]...)
			emit(nc)
		}
	}
	if c.Faults {
		nc := c
		nc.Faults = false
		emit(nc)
	}
	if c.Cfg.YieldP != 0 {
		nc := c
		nc.Cfg.YieldP = 0
		emit(nc)
	}
	if c.Nodes > 1 {
		nc := c
		nc.Nodes = c.Nodes - 1
		if nc.Replicas > nc.Nodes {
			nc.Replicas = nc.Nodes
		}
		nc.Ops = nil
		for _, op := range c.Ops {
			if op.Node > nc.Nodes || op.A > nc.Nodes || op.B > nc.Nodes {
				continue
			}
			nc.Ops = append(nc.Ops, op)
		}
		emit(nc)
	}
	if c.Partitions > 1 {
		nc := c
		nc.Partitions = 1
		emit(nc)
	}
	for i, op := range c.Ops {
		if len(op.Ids) > 1 {
			nc := c
			nc.Ops = append([]W3Op(nil), c.Ops...)
			nc.Ops[i].Ids = op.Ids[:1]
			nc.Ops[i].Vers = op.Vers[:1]
			emit(nc)
		}
		if op.Async {
			nc := c
			nc.Ops = append([]W3Op(nil), c.Ops...)
			nc.Ops[i].Async = false
			emit(nc)
		}
	}
}

func shrinkC05(raw json.RawMessage) []json.RawMessage {
	var c W3Case
	if json.Unmarshal(raw, &c) != nil {
		return nil
	}
	var out []json.RawMessage
	shrinkW3Ops(c, func(n W3Case) {
		b, _ := json.Marshal(n)
		out = append(out, b)
	})
	return out
}

func shrinkC03(raw json.RawMessage) []json.RawMessage {
	var c C03Case
	if json.Unmarshal(raw, &c) != nil {
		return nil
	}
	var out []json.RawMessage
	shrinkW3Ops(c.W3, func(n W3Case) {
		on := c.OnlyNode
		if on > n.Nodes {
			on = 0
		}
		b, _ := json.Marshal(C03Case{W3: n, Enumerate: c.Enumerate, OnlyNode: on})
		out = append(out, b)
	})
	return out
}

var w3Real = []string{"anndb.Server setup() wiring", "cluster.Conn", "storage/raft RaftGroup, RaftTransport, sharedGroup, NodesManager", "etcd raft v3.3.19", "storage/wal on Badger v2.0.3 (tmpfs directory per node)", "storage.DatasetManager, Allocator, Dataset, partition", "services.* request handlers", "index.Hnsw", "protobuf codecs (every message is marshalled and unmarshalled)"}
var w3Stub = []string{"TCP/HTTP2 (gRPC client interceptors hand requests to the target node's service objects)", "clock (testing/synctest fake clock)", "process crash (abandoning an incarnation at a quiescent instant or at a durable-write boundary; Badger directory survives)", "goroutine choice at hook/RPC/yield-point granularity, select poll order and map order (runtime overlay)"}

func init() {
	Register(&Check{
		ID:    "C05",
		Level: "exploration",
		Rule: "case = cluster of 1..5 real servers, a dataset (1..2 partitions, replication 1 or 3), segments of client writes interleaved with faults (message drop/duplication/late delivery with per-run rates, symmetric and one-way partitions, isolation, crash at quiescence, crash of all nodes, restart), snapshot threshold knob, yield probability; monitors run after every step; " +
			"non-trivial = more than 10 entries applied; distinct = hash of the canonical event log",
		Assumptions: []string{"Badger's transactional durability is trusted (a WriteBatch that returned is durable)", "durable state is read back through a fresh log-store instance (its fidelity is C06's subject)",
			"liveness is asserted only after all faults stopped and every node was restarted, with a bound of 120 simulated seconds"},
		Real:     w3Real,
		Stub:     w3Stub,
		Probes:   []string{"fault_drop_request", "fault_drop_response", "fault_duplicate_raft_message", "fault_late_delivery", "fault_partition", "fault_partition_one_way", "fault_isolate_node", "fault_crash", "fault_crash_all_nodes", "node_restarts", "follower_installed_snapshot", "leader_sent_snapshot", "vote_grants_checked_against_durable_state", "append_acks_checked_against_durable_state", "durable_state_samples_compared", "entries_applied"},
		MemLimit: 96 << 30,
		Budget: func(tier string) (int, time.Duration) {
			if tier == "thorough" {
				return 20000, 50 * time.Minute
			}
			return 2000, 5 * time.Minute
		},
		WallPerSeed:  3 * time.Minute,
		RecycleEvery: 25,
		Gen:          withSchedKnobs(genC05),
		Exec:         withSample(genC05, execC05),
		Shrink:       shrinkC05,
		DeathSig:     w3DeathSig("C05"),
	})
	Register(&Check{
		ID:    "C03",
		Level: "fault_enumeration",
		Rule: "case = cluster of 1..3 servers, a dataset, 3..9 client writes (single and batch, unique value per write, some overlapping), snapshot threshold knob; the workload runs once fault-free to count the durable-write boundaries (non-empty Save, local snapshot, log reset) of each node, then it is re-executed once for EVERY (node, boundary, before/after): the node crashes there, everything restarts, and the recovered contents of every replica are checked against the acknowledged history with a nondeterministic register model per id (porcupine); a third of the cases instead sample crashes at quiescence, crashes of all nodes and message faults; " +
			"non-trivial = at least one crash point executed / one acknowledged write; distinct = hash of the fault-free event log",
		Assumptions: []string{"a write whose acknowledgement did not reach the client (timeout, node died) is indeterminate: it may or may not have taken effect, at any time before the final read",
			"Badger's transactional durability is trusted; torn writes inside Badger are out of reach", "porcupine Unknown is inconclusive, never reported"},
		Real:     w3Real,
		Stub:     w3Stub,
		Probes:   []string{"crash_points_enumerated", "fault_crash_before_save+entries", "fault_crash_after_save+entries", "fault_crash_before_snapshot", "fault_crash_after_snapshot", "acknowledged_writes", "indeterminate_writes", "durability_histories_checked", "fault_crash_all_nodes", "fault_crash_at_quiescence"},
		MemLimit: 96 << 30,
		Budget: func(tier string) (int, time.Duration) {
			if tier == "thorough" {
				return 1500, 55 * time.Minute
			}
			return 64, 6 * time.Minute
		},
		Focus: func(cs json.RawMessage, v Violation) json.RawMessage {
			var c C03Case
			if json.Unmarshal(cs, &c) != nil || !c.Enumerate {
				return nil
			}
			var n, pos int
			i := strings.Index(v.Msg, "[crash of n")
			if i < 0 {
				return nil
			}
			if _, err := fmt.Sscanf(v.Msg[i:], "[crash of n%d at durable-write boundary position %d]", &n, &pos); err != nil {
				return nil
			}
			c.Enumerate = false
			c.W3.Crash = &CrashPoint{Node: n, Pos: pos}
			b, _ := json.Marshal(c)
			return b
		},
		WallPerSeed:  8 * time.Minute,
		RecycleEvery: 1,
		Gen:          withSchedKnobs(genC03),
		Exec:         withSample(genC03, execC03),
		Shrink:       shrinkC03,
		DeathSig:     w3DeathSig("C03"),
	})
}

var _ = context.Background
var _ pb.Space
