package anndbverif

// C08: index snapshots round-trip exactly for every reachable state and any reader.

import (
	"encoding/json"
	"fmt"
	"math"
	"runtime/debug"
	"sort"
	"strings"
	"time"

	"github.com/marekgalovic/anndb/index"

	"simrt"
)

type C08Case struct {
	Cfg       IdxCfg  `json:"cfg"`
	Ops       []IdxOp `json:"ops"`
	Final     IdxOp   `json:"final"`
	Target    int     `json:"target"` // 0 fresh same config, 1 fresh with different parameters, 2 used index
	TargetCfg IdxCfg  `json:"target_cfg"`
	TargetOps []IdxOp `json:"target_ops,omitempty"`
}

func metaOverLimit(m map[string]string) bool {
	if len(m) > 65535 {
		return true
	}
	for k, v := range m {
		if len(k) > 255 || len(v) > 65535 {
			return true
		}
	}
	return false
}

func genC08(r *simrt.Rand, tier string) json.RawMessage {
	cfg := genIdxCfg(r)
	var c C08Case
	c.Cfg = cfg
	switch r.Intn(10) {
	case 0: // empty index
	case 1: // emptied index
		n := r.Range(1, 4)
		for i := 0; i < n; i++ {
			c.Ops = append(c.Ops, IdxOp{K: "ins", Id: i, Vec: genVec(r, cfg.Dim, false, cfg.Space == 3), Meta: genMeta(r, true), Lvl: r.Intn(2)})
		}
		for _, i := range r.Perm(n) {
			c.Ops = append(c.Ops, IdxOp{K: "rem", Id: i})
		}
	default:
		c.Ops = genHistory(r, cfg, r.Range(1, 30), r.Range(1, 12), true, false, true)
	}
	// rare over-limit metadata shapes (the format has 8/16-bit length fields)
	if r.Bool(0.03) {
		m := map[string]string{}
		switch r.Intn(3) {
		case 0:
			m[strings.Repeat("K", 256)] = "x"
		case 1:
			m["big"] = strings.Repeat("V", 65536)
		case 2:
			m[strings.Repeat("K", 300)] = strings.Repeat("V", 70000)
		}
		c.Ops = append(c.Ops, IdxOp{K: "ins", Id: 1000, Vec: genVec(r, cfg.Dim, false, cfg.Space == 3), Meta: m})
	}
	c.Final = IdxOp{K: "load", Hdr: r.Bool(0.5), Rd: r.Intn(3) | (r.Intn(2) << 2) | (r.Intn(2) << 3), RdS: r.Uint64()}
	if r.Bool(0.4) {
		c.Final.Rd = 0
	}
	c.Target = r.Intn(3)
	c.TargetCfg = cfg
	switch c.Target {
	case 1:
		c.TargetCfg.M = []int{2, 5, 16}[r.Intn(3)]
		c.TargetCfg.Ef = 7
		if c.Final.Hdr && r.Bool(0.5) {
			c.TargetCfg.Dim = r.Range(1, 6)
			c.TargetCfg.Space = r.Range(1, 3)
		}
	case 2:
		c.TargetOps = genHistory(r, cfg, r.Range(1, 12), r.Range(1, 12), false, false, true)
	}
	b, _ := json.Marshal(c)
	return b
}

type liveEdge struct {
	to   string
	dist uint32
}

func liveEdges(v index.VerifVertex, l int) []liveEdge {
	var out []liveEdge
	if l >= len(v.Edges) {
		return nil
	}
	for _, e := range v.Edges[l] {
		if e.ToDeleted {
			continue
		}
		out = append(out, liveEdge{e.To.String(), math.Float32bits(e.Dist)})
	}
	sort.Slice(out, func(i, j int) bool { return out[i].to < out[j].to })
	return out
}

// diffDumps lists the classes of differences between the saved and the loaded state.
func diffDumps(a, b *index.VerifState) (classes []string, detail string) {
	add := func(c, d string) {
		for _, x := range classes {
			if x == c {
				return
			}
		}
		classes = append(classes, c)
		if detail == "" {
			detail = d
		}
	}
	var wantBytes uint64
	for _, v := range b.Vertices {
		wantBytes += 16 + 4*uint64(len(v.Vector))
		for k, val := range v.Metadata {
			wantBytes += uint64(len(k) + len(val))
		}
	}
	if b.Len != uint64(len(b.Vertices)) {
		add("stale-len-counter", fmt.Sprintf("Len counter %d but %d items stored after load", b.Len, len(b.Vertices)))
	}
	if b.DataBytes != wantBytes {
		add("stale-bytes-counter", fmt.Sprintf("data-bytes counter %d but stored items account for %d", b.DataBytes, wantBytes))
	}
	if len(a.Vertices) != len(b.Vertices) {
		add("item-set", fmt.Sprintf("%d items saved, %d after load", len(a.Vertices), len(b.Vertices)))
		return
	}
	for i := range a.Vertices {
		x, y := a.Vertices[i], b.Vertices[i]
		if x.Id != y.Id {
			add("item-set", fmt.Sprintf("item %d: id %s vs %s", i, x.Id, y.Id))
			continue
		}
		if len(x.Vector) != len(y.Vector) {
			add("vector", fmt.Sprintf("id %s vector length %d vs %d", x.Id, len(x.Vector), len(y.Vector)))
		} else {
			for j := range x.Vector {
				if math.Float32bits(x.Vector[j]) != math.Float32bits(y.Vector[j]) {
					add("vector", fmt.Sprintf("id %s component %d: %v vs %v", x.Id, j, x.Vector[j], y.Vector[j]))
					break
				}
			}
		}
		if !metaEqual(x.Metadata, y.Metadata) {
			add("metadata", fmt.Sprintf("id %s metadata %d keys vs %d keys", x.Id, len(x.Metadata), len(y.Metadata)))
		}
		if x.Level != y.Level {
			add("level", fmt.Sprintf("id %s level %d vs %d", x.Id, x.Level, y.Level))
		}
		if y.Deleted {
			add("tombstone-loaded", fmt.Sprintf("id %s loaded as deleted", x.Id))
		}
		for l := 0; l <= x.Level && l < len(x.Edges); l++ {
			ea, eb := liveEdges(x, l), liveEdges(y, l)
			same := len(ea) == len(eb)
			for k := 0; same && k < len(ea); k++ {
				same = ea[k] == eb[k]
			}
			if !same {
				add("links", fmt.Sprintf("id %s level %d: %d live links saved, %d after load", x.Id, l, len(ea), len(eb)))
			}
			if l < len(y.Edges) {
				for _, e := range y.Edges[l] {
					if e.ToDeleted || !e.ToStored {
						add("links-to-unstored", fmt.Sprintf("id %s level %d links to %s which is not a stored item after load", x.Id, l, e.To))
					}
				}
			}
		}
	}
	if a.HasEntrypoint != b.HasEntrypoint || (a.HasEntrypoint && a.Entrypoint != b.Entrypoint) {
		add("entrypoint", fmt.Sprintf("entry point %v/%s saved, %v/%s after load", a.HasEntrypoint, a.Entrypoint, b.HasEntrypoint, b.Entrypoint))
	}
	if b.HasEntrypoint && (!b.EntrypointStored || b.EntrypointDeleted) {
		add("entrypoint-unstored", "entry point after load is not a stored item")
	}
	sort.Strings(classes)
	return
}

func execC08(raw json.RawMessage, wantLog bool) (out Outcome) {
	var c C08Case
	if err := json.Unmarshal(raw, &c); err != nil {
		out.Harness = err.Error()
		return
	}
	simrt.SetMode(simrt.ModePlain)
	simrt.SetOrder(c.Cfg.OrderSeed, c.Cfg.OrderMode)
	ir := &idxRun{cfg: c.Cfg, idx: newIndex(c.Cfg), model: map[int]*mItem{}, out: &out, wantL: wantLog}
	defer func() {
		if r := recover(); r != nil {
			out.Violate("C08", "panic/"+topFrame(debug.Stack()), "panic: %v | %s", r, trimStack(debug.Stack()))
		}
		out.TraceHash = ir.h
		out.Log = ir.log
	}()
	overLimit := false
	for _, op := range c.Ops {
		switch op.K {
		case "ins", "rem", "upd":
			if op.K != "rem" && metaOverLimit(op.Meta) {
				overLimit = true
			}
			ir.applyMut(op)
		case "load", "loadsame":
			if len(ir.model) == 0 {
				continue
			}
			target := newIndex(c.Cfg)
			res := ir.saveLoad(IdxOp{Hdr: op.Hdr}, target)
			if res.saveErr == nil && res.loadErr == nil && res.panicked == "" {
				if cl, _ := diffDumps(res.before, res.after); len(cl) == 0 {
					ir.idx = target
					out.Stat("intermediate_loads", 1)
				}
			}
		}
	}
	// is over-limit metadata actually in the state being saved?
	stateOver := false
	for _, m := range ir.model {
		if metaOverLimit(m.meta) {
			stateOver = true
		}
	}
	_ = overLimit
	mkTarget := func(kind int) *index.Hnsw {
		switch kind {
		case 1:
			return newIndex(c.TargetCfg)
		case 2:
			t := &idxRun{cfg: c.Cfg, idx: newIndex(c.Cfg), model: map[int]*mItem{}, out: &Outcome{}}
			for _, op := range c.TargetOps {
				t.applyMut(op)
			}
			return t.idx
		}
		return newIndex(c.Cfg)
	}
	res := ir.saveLoad(c.Final, mkTarget(c.Target))
	ir.logf("final save err=%v written=%d; load rd=%d hdr=%v target=%d err=%v consumed=%d panic=%v", res.saveErr, res.written, c.Final.Rd, c.Final.Hdr, c.Target, res.loadErr, res.consumed, res.panicked != "")
	out.Stat(fmt.Sprintf("reader_mode_%d", c.Final.Rd&3), 1)
	if c.Final.Rd&4 != 0 {
		out.Stat("reader_data_with_eof", 1)
	}
	if c.Final.Rd&8 != 0 {
		out.Stat("reader_trailing_bytes", 1)
	}
	out.Stat(fmt.Sprintf("target_kind_%d", c.Target), 1)
	if res.before.Len == 0 {
		out.Stat("state_empty", 1)
	}
	if tombstoneLinks(res.before) > 0 {
		out.Stat("state_has_links_to_tombstones", 1)
	}
	if stateOver {
		out.Stat("state_has_over_limit_metadata", 1)
	}
	out.Nontrivial = true

	kind, msg := "", ""
	switch {
	case res.panicked != "":
		kind, msg = "panic", res.panicked
	case res.saveErr != nil:
		kind, msg = "save-error", fmt.Sprintf("Save failed: %v", res.saveErr)
	case res.loadErr != nil:
		kind, msg = "load-error", fmt.Sprintf("loading the index's own output failed: %v (%d bytes written, %d consumed)", res.loadErr, res.written, res.consumed)
	default:
		cl, detail := diffDumps(res.before, res.after)
		if len(cl) > 0 {
			kind, msg = "mismatch:"+strings.Join(cl, "+"), detail
		} else if res.consumed != res.written {
			kind, msg = "bytes-consumed", fmt.Sprintf("%d bytes written, %d consumed", res.written, res.consumed)
		}
	}
	if kind == "" {
		return
	}
	// classify the condition: which ingredient of the case is to blame
	cond := "other"
	switch {
	case res.before.Len == 0 && len(res.before.Vertices) == 0:
		cond = "empty-index"
	case stateOver:
		cond = "metadata-over-format-limit"
	default:
		// retry: plain reader, fresh same-config target
		plain := ir.saveLoad(IdxOp{Hdr: c.Final.Hdr}, newIndex(c.Cfg))
		plainOK := plain.saveErr == nil && plain.loadErr == nil && plain.panicked == "" && plain.consumed == plain.written
		if plainOK {
			if cl, _ := diffDumps(plain.before, plain.after); len(cl) > 0 {
				plainOK = false
			}
		}
		if plainOK {
			// which ingredient alone breaks it?
			onlyReader := ir.saveLoad(c.Final, newIndex(c.Cfg))
			rdOK := onlyReader.loadErr == nil && onlyReader.panicked == "" && onlyReader.consumed == onlyReader.written
			if rdOK {
				if cl, _ := diffDumps(onlyReader.before, onlyReader.after); len(cl) > 0 {
					rdOK = false
				}
			}
			switch {
			case !rdOK && c.Final.Rd&3 != 0:
				cond = "fragmenting-reader"
			case !rdOK && c.Final.Rd&4 != 0:
				cond = "reader-returns-data-with-eof"
			case !rdOK:
				cond = "reader"
			case c.Target == 2:
				cond = "used-target-index"
			case c.Target == 1:
				cond = "target-with-different-parameters"
			}
		} else if !res.before.HasEntrypoint {
			cond = "nil-entrypoint"
		} else if res.before.EntrypointDeleted {
			cond = "tombstoned-entrypoint"
		}
	}
	out.Violate("C08", cond+"/"+kind, "%s [%s]", msg, cond)
	return
}

func shrinkC08(raw json.RawMessage) []json.RawMessage {
	var c C08Case
	if json.Unmarshal(raw, &c) != nil {
		return nil
	}
	var out []json.RawMessage
	emit := func(n C08Case) {
		b, _ := json.Marshal(n)
		out = append(out, b)
	}
	for _, which := range []int{0, 1} {
		ops := c.Ops
		if which == 1 {
			ops = c.TargetOps
		}
		n := len(ops)
		for chunk := n; chunk >= 1; chunk /= 2 {
			for i := 0; i+chunk <= n; i += chunk {
				nc := c
				no := append(append([]IdxOp(nil), ops[:i]...), ops[i+chunk:]...)
				if which == 0 {
					nc.Ops = no
				} else {
					nc.TargetOps = no
				}
				emit(nc)
			}
		}
	}
	if c.Target != 0 {
		nc := c
		nc.Target = 0
		nc.TargetOps = nil
		nc.TargetCfg = c.Cfg
		emit(nc)
	}
	for _, bit := range []int{8, 4, 3} {
		if c.Final.Rd&bit != 0 {
			nc := c
			nc.Final.Rd &^= bit
			emit(nc)
		}
	}
	if c.Final.Hdr {
		nc := c
		nc.Final.Hdr = false
		emit(nc)
	}
	for i, op := range c.Ops {
		if op.Meta != nil {
			nc := c
			nc.Ops = append([]IdxOp(nil), c.Ops...)
			nc.Ops[i].Meta = nil
			emit(nc)
		}
		if op.Lvl > 0 {
			nc := c
			nc.Ops = append([]IdxOp(nil), c.Ops...)
			nc.Ops[i].Lvl = 0
			emit(nc)
		}
	}
	return out
}

func init() {
	Register(&Check{
		ID:    "C08",
		Level: "exploration",
		Rule: "case = history producing the saved state (empty, emptied, after removals/updates/entry-point hand-overs, rich metadata incl. empty, 255-byte keys, non-UTF8, rare over-limit shapes) + header flag + reader behaviour " +
			"(full / 1 byte / random chunks, data-with-EOF, trailing bytes) + load target (fresh, fresh with other parameters, used index); every case is non-trivial; distinct = distinct hash of the executed event log",
		Assumptions: []string{
			"the reader faults modelled are the ones io.Reader permits: short reads, (n>0, io.EOF), more bytes after the snapshot; truncated or corrupted input is outside the property's statement",
			"memory use is not measured here (own output never contains counts larger than the input that follows them)",
		},
		Real:   []string{"index.Hnsw Save/Load, hnswConfig save/load, Metadata save/load, math.Vector Save/Load", "index mutations that produce the state"},
		Stub:   []string{"io.Reader (simulated fragmenting reader)"},
		Probes: []string{"state_empty", "state_has_links_to_tombstones", "reader_mode_1", "reader_mode_2", "reader_data_with_eof", "reader_trailing_bytes", "target_kind_1", "target_kind_2", "intermediate_loads", "state_has_over_limit_metadata"},
		Budget: func(tier string) (int, time.Duration) {
			if tier == "thorough" {
				return 300000, 40 * time.Minute
			}
			return 20000, 4 * time.Minute
		},
		DeathSig: func(stderr string, cs json.RawMessage) (string, string) {
			if !strings.Contains(stderr, "out of memory") && !strings.Contains(stderr, "cannot allocate memory") {
				return "", ""
			}
			var c C08Case
			json.Unmarshal(cs, &c)
			cond := "other"
			over := false
			for _, op := range c.Ops {
				if metaOverLimit(op.Meta) {
					over = true
				}
			}
			if over {
				cond = "metadata-over-format-limit"
			} else if c.Final.Rd&3 != 0 {
				cond = "fragmenting-reader"
			} else if c.Final.Rd&4 != 0 {
				cond = "reader-returns-data-with-eof"
			}
			return cond + "/memory-not-proportional-to-input", "Load exhausted the worker's address-space limit while loading the index's own output (allocation sized by a number read from the stream) [" + cond + "]"
		},
		MemLimit: 2 << 30,
		Gen:      genC08,
		Exec:     withSample(genC08, execC08),
		Shrink:   shrinkC08,
	})
}
