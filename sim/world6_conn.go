package anndbverif

// World VI: the cluster connection (address book, dial cache, membership
// notifications) under the token scheduler. It is the state C18 names first
// ("notification channels ... sent to while holding the address lock") and the
// one piece of the control plane whose hazards are lock-ordering and
// recursive-lock hazards a few instructions wide, which the cluster world
// (World III) cannot reach. Runs as the leg "conn" of C18.
//
// K workers apply AddNode / RemoveNode / AddNodeAddressHint / Dial / Nodes /
// NodeIds / KnownNodeIds to one real cluster.Conn; exactly one runs at a time
// and at every lock operation the seeded scheduler picks who goes on. Two
// subscribers drain the membership notifications (free-running: a subscriber
// that reads is what the system has).
//
// Oracle: no deadlock (all workers waiting for locks), no panic; every id is
// changed by one worker only, so at quiescence a node is listed iff its
// owner's last change was an AddNode, with the address of that AddNode; the
// notifications every subscriber received are exactly the changes that took
// effect, in an order consistent with each owner's program order.

import (
	"context"
	"encoding/json"
	"fmt"
	"net"
	"runtime/debug"
	"sort"
	"sync"
	"time"

	"github.com/marekgalovic/anndb/cluster"
	"google.golang.org/grpc"

	"simrt"
)

type ConnOp struct {
	K  string `json:"k"` // add remove hint dial nodes ids known
	Id int    `json:"id,omitempty"`
	A  int    `json:"a,omitempty"` // address number
}

type ConnCase struct {
	Workers [][]ConnOp `json:"workers"`
	Subs    int        `json:"subs"`
	Seed    uint64     `json:"sched_seed"`
	Policy  int        `json:"policy"`
	P       int        `json:"p"`
	Conn    bool       `json:"conn_leg"` // marks the case (Exec dispatches by content)
}

func isConnCase(raw json.RawMessage) bool {
	var probe struct {
		Conn bool `json:"conn_leg"`
	}
	return json.Unmarshal(raw, &probe) == nil && probe.Conn
}

func genConn(r *simrt.Rand, tier string) json.RawMessage {
	c := ConnCase{Seed: r.Uint64(), Policy: r.Intn(2), Subs: r.Range(0, 2), Conn: true}
	if c.Policy == 0 {
		c.P = []int{8, 40, 128, 256}[r.Intn(4)]
	} else {
		c.P = r.Range(1, 3)
	}
	k := r.Range(2, 5)
	for w := 0; w < k; w++ {
		var ops []ConnOp
		n := r.Range(2, 12)
		// worker w owns the ids 10w+2 .. 10w+4 for membership changes; it reads, dials and
		// hints at everybody's
		for i := 0; i < n; i++ {
			own := 10*w + 2 + r.Intn(3)
			any := 10*r.Intn(k) + 2 + r.Intn(3)
			switch x := r.Intn(100); {
			case x < 30:
				ops = append(ops, ConnOp{K: "add", Id: own, A: r.Range(1, 3)})
			case x < 50:
				ops = append(ops, ConnOp{K: "remove", Id: own})
			case x < 60:
				ops = append(ops, ConnOp{K: "hint", Id: any, A: r.Range(4, 6)})
			case x < 78:
				ops = append(ops, ConnOp{K: "dial", Id: any})
			case x < 86:
				ops = append(ops, ConnOp{K: "nodes"})
			case x < 93:
				ops = append(ops, ConnOp{K: "ids"})
			default:
				ops = append(ops, ConnOp{K: "known"})
			}
		}
		c.Workers = append(c.Workers, ops)
	}
	b, _ := json.Marshal(c)
	return b
}

func connAddr(id, a int) string { return fmt.Sprintf("10.0.%d.%d:6000", a, id) }

func execConn(raw json.RawMessage, wantLog bool) (out Outcome) {
	var c ConnCase
	if err := json.Unmarshal(raw, &c); err != nil {
		out.Harness = err.Error()
		return
	}
	simrt.SetMode(simrt.ModePlain)
	// no sockets: every connection attempt of a dialed connection is refused at once
	cluster.VerifDialOptions = func(c *cluster.Conn) []grpc.DialOption {
		return []grpc.DialOption{grpc.WithContextDialer(func(ctx context.Context, addr string) (net.Conn, error) {
			return nil, fmt.Errorf("simulated network: no sockets")
		})}
	}
	defer func() { cluster.VerifDialOptions = nil }()
	conn, err := cluster.NewConn(1, connAddr(1, 0), "")
	if err != nil {
		out.Harness = err.Error()
		return
	}
	conn.AddNode(1, connAddr(1, 0))
	// subscribers
	type note struct {
		add bool
		id  uint64
	}
	got := make([][]note, c.Subs)
	var subWg sync.WaitGroup
	stopSubs := make(chan struct{})
	for i := 0; i < c.Subs; i++ {
		ch := conn.NodeChangesNotifications()
		subWg.Add(1)
		go func(i int) {
			defer subWg.Done()
			for {
				select {
				case n, ok := <-ch:
					if !ok {
						return
					}
					got[i] = append(got[i], note{n.Type == cluster.NodesChangeAddNode, n.NodeId})
				case <-stopSubs:
					// drain what is buffered
					for {
						select {
						case n, ok := <-ch:
							if !ok {
								return
							}
							got[i] = append(got[i], note{n.Type == cluster.NodesChangeAddNode, n.NodeId})
						default:
							return
						}
					}
				}
			}
		}(i)
	}
	nOps := 0
	for _, w := range c.Workers {
		nOps += len(w)
	}
	s := newTokSched(len(c.Workers), c.Seed, c.Policy, c.P, nOps*20)
	sched = s
	simrt.YieldFn, simrt.BlockFn, simrt.WakeFn = schedYield, schedBlock, schedWake
	simrt.SetMode(simrt.ModeToken)
	type effect struct {
		add bool
		id  int
	}
	effects := make([][]effect, len(c.Workers)) // changes that took effect, per worker in program order
	panics := make([]string, len(c.Workers))
	var wg sync.WaitGroup
	for w := range c.Workers {
		wg.Add(1)
		go func(w int) {
			defer wg.Done()
			schedWorkerStart(w)
			defer schedWorkerDone(w)
			present := map[int]bool{}
			defer func() {
				if r := recover(); r != nil {
					panics[w] = fmt.Sprintf("%v | %s | %s", r, topFrame(debug.Stack()), trimStack(debug.Stack()))
				}
			}()
			for _, op := range c.Workers[w] {
				switch op.K {
				case "add":
					if conn.AddNode(uint64(op.Id), connAddr(op.Id, op.A)) {
						effects[w] = append(effects[w], effect{true, op.Id})
					} else if !present[op.Id] {
						panics[w] = fmt.Sprintf("AddNode(%d) says the node was known although its only writer had not added it | cluster.(*Conn).AddNode | ", op.Id)
						return
					}
					present[op.Id] = true
				case "remove":
					conn.RemoveNode(uint64(op.Id))
					if present[op.Id] {
						effects[w] = append(effects[w], effect{false, op.Id})
					}
					present[op.Id] = false
				case "hint":
					conn.AddNodeAddressHint(uint64(op.Id), connAddr(op.Id, op.A))
				case "dial":
					conn.Dial(uint64(op.Id))
				case "nodes":
					conn.Nodes()
				case "ids":
					conn.NodeIds()
				case "known":
					conn.KnownNodeIds()
				}
			}
		}(w)
	}
	s.run()
	deadlocked := s.deadlock
	if !deadlocked {
		wg.Wait()
	}
	simrt.SetMode(simrt.ModePlain)
	out.Stat("conn_schedule_steps", int64(s.steps))
	out.Stat("conn_lock_waits", int64(s.blocks))
	out.TraceHash = s.trace ^ s.steps<<20
	out.Nontrivial = s.switches > 0
	if deadlocked {
		out.Poisoned = true
		out.Violate("C18", "conn/deadlock", "every worker on the cluster connection waits for one of its locks (%d workers, %d steps): the goroutine that applies the membership log would be among them", len(c.Workers), s.steps)
		s.abandon()
		sched = nil
		return
	}
	s.close()
	sched = nil
	for w, p := range panics {
		if p != "" {
			out.Violate("C18", "conn/panic/"+firstWord(splitBar(p, 1)), "worker %d on the cluster connection: %s", w, p)
			return
		}
	}
	// let the subscribers take what is still buffered
	done := make(chan struct{})
	go func() { time.Sleep(2 * time.Millisecond); close(stopSubs); subWg.Wait(); close(done) }()
	select {
	case <-done:
	case <-time.After(5 * time.Second):
		out.Harness = "subscribers did not finish"
		return
	}
	defer conn.Close()
	// final address book: each worker's changes applied in its program order (nobody else
	// changes its nodes); a second AddNode of a listed node changes nothing
	want := map[uint64]string{1: connAddr(1, 0)}
	for _, ops := range c.Workers {
		for _, op := range ops {
			switch op.K {
			case "add":
				if _, ok := want[uint64(op.Id)]; !ok {
					want[uint64(op.Id)] = connAddr(op.Id, op.A)
				}
			case "remove":
				delete(want, uint64(op.Id))
			}
		}
	}
	gotNodes := conn.Nodes()
	if len(gotNodes) != len(want) {
		out.Violate("C18", "conn/address-book-differs-from-the-changes-applied", "at quiescence the connection lists %d nodes %v, the changes applied give %d: %v", len(gotNodes), sortedIds(gotNodes), len(want), sortedIds(want))
		return
	}
	for id, a := range want {
		if gotNodes[id] != a {
			out.Violate("C18", "conn/address-book-differs-from-the-changes-applied", "node %d is listed with %q, the change that added it announced %q", id, gotNodes[id], a)
			return
		}
	}
	ids := conn.NodeIds()
	if len(ids) != len(want) {
		out.Violate("C18", "conn/node-ids-differ-from-nodes", "NodeIds() has %d entries, Nodes() %d", len(ids), len(want))
		return
	}
	// notifications: every subscriber saw exactly the changes that took effect, each owner's in order
	for i := 0; i < c.Subs; i++ {
		perOwner := map[int][]effect{}
		for _, n := range got[i] {
			perOwner[int(n.id)/10] = append(perOwner[int(n.id)/10], effect{n.add, int(n.id)})
		}
		for w := range c.Workers {
			a, b := perOwner[w], effects[w]
			same := len(a) == len(b)
			for k := 0; same && k < len(a); k++ {
				same = a[k] == b[k]
			}
			if !same {
				out.Violate("C18", "conn/notifications-differ-from-the-changes-applied", "subscriber %d received %d notifications about worker %d's nodes %v, its changes that took effect are %d: %v", i, len(a), w, a, len(b), b)
				return
			}
		}
		out.Stat("conn_notifications_checked", int64(len(got[i])))
	}
	out.Stat("conn_runs", 1)
	return
}

func splitBar(s string, i int) string {
	parts := []string{}
	cur := ""
	for k := 0; k < len(s); k++ {
		if k+2 < len(s) && s[k:k+3] == " | " {
			parts = append(parts, cur)
			cur = ""
			k += 2
			continue
		}
		cur += string(s[k])
	}
	parts = append(parts, cur)
	if i < len(parts) {
		return parts[i]
	}
	return ""
}

func sortedIds(m map[uint64]string) []uint64 {
	ids := make([]uint64, 0, len(m))
	for id := range m {
		ids = append(ids, id)
	}
	sort.Slice(ids, func(i, j int) bool { return ids[i] < ids[j] })
	return ids
}

func shrinkConn(raw json.RawMessage) []json.RawMessage {
	var c ConnCase
	if json.Unmarshal(raw, &c) != nil {
		return nil
	}
	var out []json.RawMessage
	emit := func(n ConnCase) {
		b, _ := json.Marshal(n)
		out = append(out, b)
	}
	if len(c.Workers) > 2 {
		for w := range c.Workers {
			n := c
			n.Workers = append(append([][]ConnOp(nil), c.Workers[:w]...), c.Workers[w+1:]...)
			emit(n)
		}
	}
	for w := range c.Workers {
		for i := range c.Workers[w] {
			n := c
			n.Workers = append([][]ConnOp(nil), c.Workers...)
			n.Workers[w] = append(append([]ConnOp(nil), c.Workers[w][:i]...), c.Workers[w][i+1:]...)
			emit(n)
		}
	}
	if c.Subs > 0 {
		n := c
		n.Subs = 0
		emit(n)
	}
	return out
}
