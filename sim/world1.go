package anndbverif

// World I (sequential part): one index.Hnsw driven by a generated history; the
// simulator owns map iteration order (rewrite R3) and the behaviour of the
// reader a snapshot is loaded from. Decides C01 (index half) and C08.

import (
	"bytes"
	"context"
	"encoding/binary"
	"encoding/json"
	"errors"
	"fmt"
	"io"
	"math"
	"runtime/debug"
	"sort"
	"strings"
	"time"

	"github.com/marekgalovic/anndb/index"
	"github.com/marekgalovic/anndb/index/space"
	amath "github.com/marekgalovic/anndb/math"
	uuid "github.com/satori/go.uuid"

	"simrt"
)

type IdxCfg struct {
	Dim       int    `json:"dim"`
	Space     int    `json:"space"` // 1 euclidean 2 manhattan 3 cosine
	M         int    `json:"m"`
	Ef        int    `json:"ef"`
	EfC       int    `json:"efc"`
	Algo      int    `json:"algo"` // 0 simple 1 heuristic
	Extend    bool   `json:"extend,omitempty"`
	Keep      bool   `json:"keep,omitempty"`
	OrderMode int32  `json:"order_mode"`
	OrderSeed uint64 `json:"order_seed"`
}

type IdxOp struct {
	K    string            `json:"k"` // ins rem upd load loadsame search
	Id   int               `json:"id,omitempty"`
	Vec  []float32         `json:"vec,omitempty"`
	Meta map[string]string `json:"meta,omitempty"`
	Lvl  int               `json:"lvl,omitempty"`
	N    int               `json:"n,omitempty"`
	Hdr  bool              `json:"hdr,omitempty"`
	Rd   int               `json:"rd,omitempty"` // reader: 0 full, 1 one byte, 2 random chunks, +4 data with EOF, +8 trailing bytes
	RdS  uint64            `json:"rds,omitempty"`
}

type IdxCase struct {
	Cfg IdxCfg  `json:"cfg"`
	Ops []IdxOp `json:"ops"`
}

func idOf(i int) uuid.UUID {
	var u uuid.UUID
	// two legal but unusual ids are part of every id universe: all zero (the nil uuid,
	// which code likes to use as "none") and all ones
	switch i {
	case 0:
		return u
	case 1:
		for k := range u {
			u[k] = 0xff
		}
		return u
	}
	r := simrt.NewRand(uint64(i)*2654435761 + 17)
	binary.LittleEndian.PutUint64(u[:8], r.Uint64())
	binary.LittleEndian.PutUint64(u[8:], r.Uint64())
	return u
}

func newSpace(s int) space.Space {
	switch s {
	case 2:
		return space.NewManhattan()
	case 3:
		return space.NewCosine()
	}
	return space.NewEuclidean()
}

func newIndex(c IdxCfg) *index.Hnsw {
	opts := []index.HnswOption{index.HnswM(c.M), index.HnswEf(c.Ef), index.HnswEfConstruction(c.EfC)}
	if c.Algo == 1 {
		opts = append(opts, index.HnswSearchAlgorithm(index.HnswSearchHeuristic),
			index.HnswHeuristicExtendCandidates(c.Extend), index.HnswHeuristicKeepPruned(c.Keep))
	}
	return index.NewHnsw(uint(c.Dim), newSpace(c.Space), opts...)
}

type mItem struct {
	vec  []float32
	meta map[string]string
	lvl  int
}

func copyMeta(m map[string]string) index.Metadata {
	if m == nil {
		return nil
	}
	out := make(index.Metadata, len(m))
	for k, v := range m {
		out[k] = v
	}
	return out
}

func metaEqual(a, b map[string]string) bool {
	if len(a) != len(b) {
		return false
	}
	for k, v := range a {
		if w, ok := b[k]; !ok || w != v {
			return false
		}
	}
	return true
}

func genVec(r *simrt.Rand, dim int, grid bool, cosine bool) []float32 {
	for {
		v := make([]float32, dim)
		nz := false
		for i := range v {
			if grid {
				v[i] = float32(r.Range(-3, 3))
			} else {
				v[i] = float32(r.Float64()*20 - 10)
			}
			if v[i] != 0 {
				nz = true
			}
		}
		if !cosine || nz {
			return v
		}
	}
}

func genMeta(r *simrt.Rand, rich bool) map[string]string {
	switch r.Intn(4) {
	case 0:
		return nil
	case 1:
		return map[string]string{}
	}
	n := r.Range(1, 3)
	m := map[string]string{}
	keys := []string{"a", "b", "color", "k", ""}
	for i := 0; i < n; i++ {
		k := keys[r.Intn(len(keys))]
		v := fmt.Sprintf("v%d", r.Intn(5))
		if rich {
			switch r.Intn(8) {
			case 0:
				v = ""
			case 1:
				v = string([]byte{0xff, 0xfe, 0x00, 0x80})
			case 2:
				k = strings.Repeat("k", 255)
			case 3:
				v = strings.Repeat("v", 300)
			case 4:
				// multi-byte characters: at the byte limit of a key, and a long value
				k = strings.Repeat("\u00e9", 127) + "k"
				v = strings.Repeat("\u20ac", r.Range(1, 400))
			}
		}
		m[k] = v
	}
	return m
}

func genIdxCfg(r *simrt.Rand) IdxCfg {
	c := IdxCfg{
		Dim:   r.Range(1, 6),
		Space: r.Range(1, 3),
		M:     []int{2, 2, 3, 4, 16}[r.Intn(5)],
		Ef:    []int{1, 4, 20}[r.Intn(3)],
		EfC:   []int{2, 8, 200}[r.Intn(3)],
		Algo:  r.Intn(2),
	}
	c.Extend = r.Bool(0.5)
	c.Keep = r.Bool(0.5)
	c.OrderMode = int32(r.Intn(3))
	c.OrderSeed = r.Uint64()
	return c
}

// genHistory draws insert/remove/update operations (and optionally loads and
// searches) over a small id universe.
func genHistory(r *simrt.Rand, c IdxCfg, nOps, nIds int, withLoads, withSearch bool, richMeta bool) []IdxOp {
	grid := r.Bool(0.4)
	cos := c.Space == 3
	live := map[int]bool{}
	var ops []IdxOp
	topFirst := r.Bool(0.3)
	for len(ops) < nOps {
		x := r.Intn(100)
		switch {
		case x < 45:
			id := r.Intn(nIds)
			lvl := 0
			switch r.Intn(6) {
			case 0:
				lvl = r.Range(1, 4)
			case 1:
				lvl = 1
			}
			if topFirst && len(ops) == 0 {
				lvl = 4
			}
			ops = append(ops, IdxOp{K: "ins", Id: id, Vec: genVec(r, c.Dim, grid, cos), Meta: genMeta(r, richMeta), Lvl: lvl})
			live[id] = true
		case x < 70:
			id := r.Intn(nIds)
			ops = append(ops, IdxOp{K: "rem", Id: id})
			delete(live, id)
		case x < 80:
			id := r.Intn(nIds)
			ops = append(ops, IdxOp{K: "upd", Id: id, Vec: genVec(r, c.Dim, grid, cos), Meta: genMeta(r, richMeta)})
		case x < 88 && withLoads:
			k := "load"
			if r.Bool(0.3) {
				k = "loadsame"
			}
			ops = append(ops, IdxOp{K: k, Hdr: r.Bool(0.5), Rd: r.Intn(2)})
		case withSearch:
			ops = append(ops, genSearch(r, c, grid))
		}
	}
	return ops
}

func genSearch(r *simrt.Rand, c IdxCfg, grid bool) IdxOp {
	return IdxOp{K: "search", Vec: genVec(r, c.Dim, grid, c.Space == 3), N: []int{1, 1, 2, 3, 5, 10, 50}[r.Intn(7)]}
}

// ---------------------------------------------------------------------------
// fragmenting reader

type simReader struct {
	data     []byte
	pos      int
	mode     int
	r        *simrt.Rand
	eofData  bool
	maxChunk int
}

func newSimReader(data []byte, mode int, seed uint64) *simReader {
	return &simReader{data: data, mode: mode & 3, eofData: mode&4 != 0, r: simrt.NewRand(seed)}
}

func (s *simReader) Read(p []byte) (int, error) {
	if len(p) == 0 {
		return 0, nil
	}
	if s.pos >= len(s.data) {
		return 0, io.EOF
	}
	n := len(p)
	switch s.mode {
	case 1:
		n = 1
	case 2:
		n = 1 + s.r.Intn(len(p))
	}
	if n > len(s.data)-s.pos {
		n = len(s.data) - s.pos
	}
	copy(p, s.data[s.pos:s.pos+n])
	s.pos += n
	if s.eofData && s.pos == len(s.data) {
		return n, io.EOF
	}
	return n, nil
}

// ---------------------------------------------------------------------------
// executing a history against index + model

type idxRun struct {
	cfg   IdxCfg
	idx   *index.Hnsw
	model map[int]*mItem
	out   *Outcome
	log   []string
	wantL bool
	h     uint64
}

func (ir *idxRun) logf(f string, a ...interface{}) {
	s := fmt.Sprintf(f, a...)
	ir.h = simrt.HashBytes(ir.h, []byte(s))
	if ir.wantL {
		ir.log = append(ir.log, s)
	}
}

func errName(err error) string {
	switch {
	case err == nil:
		return "ok"
	case errors.Is(err, index.ItemAlreadyExistsError):
		return "exists"
	case errors.Is(err, index.ItemNotFoundError):
		return "notfound"
	}
	return "err:" + err.Error()
}

// applyMut applies ins/rem/upd the way storage/partition.go drives the index.
func (ir *idxRun) applyMut(op IdxOp) {
	id := idOf(op.Id)
	switch op.K {
	case "ins":
		err := ir.idx.Insert(id, amath.Vector(append([]float32(nil), op.Vec...)), copyMeta(op.Meta), op.Lvl)
		ir.logf("ins %d lvl=%d -> %s", op.Id, op.Lvl, errName(err))
		_, had := ir.model[op.Id]
		if (err == nil) == had {
			ir.out.Stat("outcome_mismatch_vs_map_model(C02 domain)", 1)
		}
		if err == nil {
			ir.model[op.Id] = &mItem{vec: op.Vec, meta: map[string]string(copyMeta(op.Meta)), lvl: op.Lvl}
			if had {
				ir.out.Stat("duplicate_insert_accepted", 1)
			}
		}
	case "rem":
		err := ir.idx.Remove(id)
		ir.logf("rem %d -> %s", op.Id, errName(err))
		_, had := ir.model[op.Id]
		if (err == nil) != had {
			ir.out.Stat("outcome_mismatch_vs_map_model(C02 domain)", 1)
		}
		if err == nil {
			delete(ir.model, op.Id)
		}
	case "upd":
		v, err := ir.idx.GetVertex(id)
		if err != nil {
			ir.logf("upd %d -> %s", op.Id, errName(err))
			return
		}
		lvl := v.Level()
		old := v.Metadata()
		if err := ir.idx.Remove(id); err != nil {
			ir.logf("upd %d remove -> %s", op.Id, errName(err))
			return
		}
		md := copyMeta(op.Meta)
		if md == nil {
			md = index.Metadata{}
		}
		for k, val := range old {
			if _, ok := md[k]; !ok {
				md[k] = val
			}
		}
		err = ir.idx.Insert(id, amath.Vector(append([]float32(nil), op.Vec...)), md, lvl)
		ir.logf("upd %d lvl=%d -> %s", op.Id, lvl, errName(err))
		if err == nil {
			ir.model[op.Id] = &mItem{vec: op.Vec, meta: map[string]string(copyMeta(md)), lvl: lvl}
			ir.out.Stat("updates_applied", 1)
		} else {
			delete(ir.model, op.Id)
		}
	}
}

func tombstoneLinks(st *index.VerifState) (n int) {
	for _, v := range st.Vertices {
		for _, es := range v.Edges {
			for _, e := range es {
				if e.ToDeleted {
					n++
				}
			}
		}
	}
	return
}

func close32(a, b float32) bool {
	if a == b {
		return true
	}
	d := math.Abs(float64(a) - float64(b))
	return d <= 1e-5*math.Max(1, math.Max(math.Abs(float64(a)), math.Abs(float64(b))))
}

// checkSearch is the C01 oracle for one search against the reference map.
func (ir *idxRun) checkSearch(op IdxOp, prop string) {
	sp := newSpace(ir.cfg.Space)
	res, err := ir.idx.Search(context.Background(), amath.Vector(op.Vec), uint(op.N))
	ir.logf("search k=%d -> n=%d err=%v", op.N, len(res), err)
	ir.out.Stat("searches", 1)
	if err != nil {
		ir.out.Violate(prop, "search-error", "Search returned error %v", err)
		return
	}
	byId := map[uuid.UUID]int{}
	for i := range ir.model {
		byId[idOf(i)] = i
	}
	var st *index.VerifState
	dump := func() *index.VerifState {
		if st == nil {
			st = ir.idx.VerifDump()
		}
		return st
	}
	epClass := func() string {
		d := dump()
		switch {
		case !d.HasEntrypoint:
			return "nil-entrypoint"
		case d.EntrypointDeleted:
			return "entrypoint-is-tombstone"
		case !d.EntrypointStored:
			return "entrypoint-not-stored"
		}
		return "entrypoint-live"
	}
	dead := func() string {
		if c := epClass(); c != "entrypoint-live" {
			return "/" + c
		}
		return ""
	}
	if len(res) > op.N {
		ir.out.Violate(prop, "more-than-k", "k=%d but %d results", op.N, len(res))
	}
	if len(res) == 0 && len(ir.model) > 0 && op.N >= 1 {
		ir.out.Violate(prop, "empty-result/"+epClass(), "collection holds %d items, k=%d, search returned an empty list (%s)", len(ir.model), op.N, epClass())
	}
	seen := map[uuid.UUID]bool{}
	for i, it := range res {
		if seen[it.Id] {
			ir.out.Violate(prop, "duplicate-id"+dead(), "id %s returned twice", it.Id)
		}
		seen[it.Id] = true
		if i > 0 && res[i-1].Score > it.Score {
			ir.out.Violate(prop, "not-ascending", "scores not ascending at %d: %v > %v", i, res[i-1].Score, it.Score)
		}
		mi, ok := byId[it.Id]
		if !ok {
			cls := epClass()
			if d := dump(); !(d.HasEntrypoint && d.Entrypoint == it.Id && (d.EntrypointDeleted || !d.EntrypointStored)) {
				cls = "via-link/" + cls
			}
			ir.out.Violate(prop, "returned-removed-id/"+cls, "search returned id %s which is not stored (%s)", it.Id, cls)
			continue
		}
		m := ir.model[mi]
		want := sp.Distance(amath.Vector(op.Vec), amath.Vector(m.vec))
		if !close32(want, it.Score) {
			ir.out.Violate(prop, "wrong-score"+dead(), "id#%d score %v, distance to current vector is %v", mi, it.Score, want)
		}
		if !metaEqual(it.Metadata, m.meta) {
			ir.out.Violate(prop, "wrong-metadata"+dead(), "id#%d metadata %v, current is %v", mi, it.Metadata, m.meta)
		}
	}
}

func cfgOf(c IdxCfg) []index.HnswOption { return nil }

// saveLoad saves the index and loads the bytes as op says. Returns the error
// of Save or Load and (for C08) diagnostic data.
type slResult struct {
	saveErr, loadErr error
	written          int
	consumed         int
	before, after    *index.VerifState
	loaded           *index.Hnsw
	bytes            []byte
	panicked         string
}

func (ir *idxRun) saveLoad(op IdxOp, target *index.Hnsw) (res slResult) {
	res.before = ir.idx.VerifDump()
	var buf bytes.Buffer
	func() {
		defer func() {
			if r := recover(); r != nil {
				res.panicked = fmt.Sprintf("Save panicked: %v", r)
			}
		}()
		res.saveErr = ir.idx.Save(&buf, op.Hdr)
	}()
	if res.saveErr != nil || res.panicked != "" {
		return
	}
	res.bytes = append([]byte(nil), buf.Bytes()...)
	res.written = len(res.bytes)
	data := res.bytes
	if op.Rd&8 != 0 {
		data = append(append([]byte(nil), data...), []byte("TRAILING-BYTES-MUST-STAY-UNREAD")...)
	}
	rd := newSimReader(data, op.Rd, op.RdS)
	func() {
		defer func() {
			if r := recover(); r != nil {
				res.panicked = fmt.Sprintf("Load panicked: %v\n%s", r, trimStack(debug.Stack()))
			}
		}()
		res.loadErr = target.Load(rd, op.Hdr)
	}()
	res.consumed = rd.pos
	res.loaded = target
	if res.panicked == "" {
		res.after = target.VerifDump()
	}
	return
}

func trimStack(b []byte) string {
	lines := strings.Split(string(b), "\n")
	var keep []string
	for _, l := range lines {
		if strings.Contains(l, "marekgalovic/anndb") && !strings.Contains(l, "anndbverif") {
			keep = append(keep, strings.TrimSpace(l))
		}
	}
	if len(keep) > 6 {
		keep = keep[:6]
	}
	return strings.Join(keep, " | ")
}

// topFrame extracts the first product frame (function name) from a stack.
func topFrame(b []byte) string {
	for _, l := range strings.Split(string(b), "\n") {
		l = strings.TrimSpace(l)
		if strings.HasPrefix(l, "github.com/marekgalovic/anndb") {
			if i := strings.LastIndex(l, "("); i > 0 {
				l = l[:i]
			}
			return strings.TrimPrefix(l, "github.com/marekgalovic/anndb/")
		}
	}
	return "unknown"
}

func (ir *idxRun) traceHash() uint64 { return ir.h }

// ---------------------------------------------------------------------------
// C01

func execC01(raw json.RawMessage, wantLog bool) (out Outcome) {
	if isClusterCase(raw) {
		return execC01Cluster(raw, wantLog)
	}
	var c IdxCase
	if err := json.Unmarshal(raw, &c); err != nil {
		out.Harness = err.Error()
		return
	}
	simrt.SetMode(simrt.ModePlain)
	simrt.SetOrder(c.Cfg.OrderSeed, c.Cfg.OrderMode)
	ir := &idxRun{cfg: c.Cfg, idx: newIndex(c.Cfg), model: map[int]*mItem{}, out: &out, wantL: wantLog}
	defer func() {
		if r := recover(); r != nil {
			out.Violate("C01", "panic/"+topFrame(debug.Stack()), "panic during history: %v | %s", r, trimStack(debug.Stack()))
		}
		out.TraceHash = ir.h
		out.Log = ir.log
	}()
	removes, handovers := 0, 0
	// (guarded: a path of the index that takes one of its locks twice must not hang the harness)
	if runGuarded(func() {
		for _, op := range c.Ops {
			switch op.K {
			case "ins", "rem", "upd":
				var epBefore uuid.UUID
				if op.K != "ins" {
					d := ir.idx.VerifDump()
					epBefore = d.Entrypoint
					if d.HasEntrypoint && d.Entrypoint == idOf(op.Id) {
						handovers++
						out.Stat("entry_point_removed", 1)
					}
				}
				_ = epBefore
				n := len(ir.model)
				ir.applyMut(op)
				if len(ir.model) < n {
					removes++
				}
			case "load", "loadsame":
				if len(ir.model) == 0 && !(op.K == "loadsame" && op.Rd == 1) {
					continue // empty-state round trip is C08's subject - except for what a search sees after
					// the snapshot of an emptied index was loaded into an index that holds items
				}
				if len(ir.model) == 0 {
					out.Stat("empty_snapshot_loaded_into_used_index", 1)
				}
				target := newIndex(c.Cfg)
				if op.K == "loadsame" {
					// what a lagging follower does: the snapshot is loaded into the index that is in use
					// (either the very same object, or a used index that holds other items)
					if op.Rd == 1 {
						t := &idxRun{cfg: c.Cfg, idx: target, model: map[int]*mItem{}, out: &Outcome{}}
						for j := 0; j < 5; j++ {
							t.applyMut(IdxOp{K: "ins", Id: 500 + j, Vec: genVec(simrt.NewRand(uint64(j)+7), c.Cfg.Dim, false, c.Cfg.Space == 3), Lvl: j % 2})
						}
					} else {
						target = ir.idx
					}
					out.Stat("snapshot_loads_into_used_index", 1)
				}
				res := ir.saveLoad(IdxOp{Hdr: op.Hdr}, target)
				if res.saveErr != nil || res.loadErr != nil || res.panicked != "" {
					ir.logf("load skipped: save=%v load=%v panic=%v", res.saveErr, res.loadErr, res.panicked != "")
					out.Stat("snapshot_roundtrip_failed_skipped(C08 domain)", 1)
					continue
				}
				ir.idx = target
				ir.logf("load ok n=%d", target.Len())
				out.Stat("snapshot_loads", 1)
			case "search":
				ir.checkSearch(op, "C01")
			}
		}
	}) {
		out.Poisoned = true
		out.Violate("C01", "deadlock/single-caller", "a single caller applying the history blocks for ever on an index lock it holds itself")
		return
	}
	if d := ir.idx.VerifDump(); tombstoneLinks(d) > 0 {
		out.Stat("final_state_has_links_to_tombstones", 1)
	}
	out.Nontrivial = removes > 0
	if wantLog || true {
		out.Sample = nil
	}
	return
}

func genC01(r *simrt.Rand, tier string) json.RawMessage {
	cfg := genIdxCfg(r)
	nIds := r.Range(2, 14)
	nOps := r.Range(3, 40)
	if tier == "thorough" && r.Bool(0.3) {
		nIds = r.Range(10, 40)
		nOps = r.Range(30, 120)
	}
	ops := genHistory(r, cfg, nOps, nIds, true, true, false)
	if r.Bool(0.08) {
		// a replica whose leader emptied the partition: the snapshot of an emptied (or never
		// filled) index arrives at an index that holds items, and life goes on
		var pre []IdxOp
		n := r.Range(0, 3)
		for i := 0; i < n; i++ {
			pre = append(pre, IdxOp{K: "ins", Id: i, Vec: genVec(r, cfg.Dim, false, cfg.Space == 3), Lvl: r.Intn(2)})
		}
		for i := 0; i < n; i++ {
			pre = append(pre, IdxOp{K: "rem", Id: i})
		}
		pre = append(pre, IdxOp{K: "loadsame", Hdr: r.Bool(0.5), Rd: 1})
		ops = append(pre, genHistory(r, cfg, r.Range(2, 12), nIds, false, true, false)...)
	}
	// always finish with a few searches
	for i := 0; i < 3; i++ {
		ops = append(ops, genSearch(r, cfg, r.Bool(0.5)))
	}
	b, _ := json.Marshal(IdxCase{Cfg: cfg, Ops: ops})
	return b
}

// shrinkIdx: drop chunks of ops, then single ops, then simplify vectors / config.
func shrinkIdx(raw json.RawMessage) []json.RawMessage {
	if isClusterCase(raw) {
		return shrinkC01Cluster(raw)
	}
	var c IdxCase
	if json.Unmarshal(raw, &c) != nil {
		return nil
	}
	var out []json.RawMessage
	emit := func(n IdxCase) {
		b, _ := json.Marshal(n)
		out = append(out, b)
	}
	n := len(c.Ops)
	for chunk := n / 2; chunk >= 1; chunk /= 2 {
		for i := 0; i+chunk <= n; i += chunk {
			nc := c
			nc.Ops = append(append([]IdxOp(nil), c.Ops[:i]...), c.Ops[i+chunk:]...)
			emit(nc)
		}
	}
	if c.Cfg.OrderMode != 0 {
		nc := c
		nc.Cfg.OrderMode = 0
		emit(nc)
	}
	if c.Cfg.Algo != 0 {
		nc := c
		nc.Cfg.Algo = 0
		emit(nc)
	}
	for i, op := range c.Ops {
		if op.Meta != nil {
			nc := c
			nc.Ops = append([]IdxOp(nil), c.Ops...)
			nc.Ops[i].Meta = nil
			emit(nc)
		}
		if op.Lvl > 0 {
			nc := c
			nc.Ops = append([]IdxOp(nil), c.Ops...)
			nc.Ops[i].Lvl = 0
			emit(nc)
		}
		if op.Rd != 0 {
			nc := c
			nc.Ops = append([]IdxOp(nil), c.Ops...)
			nc.Ops[i].Rd = 0
			emit(nc)
		}
	}
	return out
}

func sampleOfCase(raw json.RawMessage) interface{} {
	var v interface{}
	json.Unmarshal(raw, &v)
	return v
}

func withSample(gen func(*simrt.Rand, string) json.RawMessage, exec func(json.RawMessage, bool) Outcome) func(json.RawMessage, bool) Outcome {
	return func(raw json.RawMessage, wantLog bool) Outcome {
		o := exec(raw, wantLog)
		if len(raw) < 6000 {
			o.Sample = sampleOfCase(raw)
		}
		return o
	}
}

func init() {
	Register(&Check{
		ID:    "C01",
		Level: "exploration",
		Rule: "case = index parameters (dim, metric, M, ef, efConstruction, selection mode, owned map order) + a history of insert/remove/update/save+load/search over 2..40 ids; " +
			"non-trivial = at least one removal or update took effect before a search; distinct = distinct hash of the executed event log (ops with their outcomes, result sizes). " +
			"Second leg (\"cluster\", World III, counters prefixed cluster_leg_): fault-free cluster of 1..3 real servers, dataset with 1..4 partitions x 1..3 replicas under any of the three metrics, 1..3 phases of inserts/updates/removes with metadata (single and batch, through any node), optionally a restart of every node that recovers the partitions from snapshot + log suffix, and after each phase dataset searches through the Search service of any node, judged by the same oracle against a sequential map",
		Assumptions: []string{
			"the oracle computes distances with the repository's own space.Distance (SIMD kernels are C15's subject, not applicable here)",
			"map iteration order inside package index is one of the orders Go permits, chosen by the simulator (rewrite R3)",
			"NaN-producing vectors (zero vector under cosine) are excluded here and exercised under C12",
		},
		Real: []string{"index.Hnsw (Insert, Remove, GetVertex, Search, Save, Load)", "index/space", "utils.PriorityQueue", "math.Vector", "cluster leg: everything World III runs (services.Search/DataManager handlers, storage.Dataset fan-out and merge, partitions, raft, Badger log)"},
		Stub: []string{"index leg: none (update is driven as storage/partition.go drives it: lookup, remove, merge metadata, insert at old level)", "cluster leg: TCP/HTTP2, clock, process crash (as in every World III check)"},
		Probes: []string{"entry_point_removed", "snapshot_loads", "snapshot_loads_into_used_index", "updates_applied", "final_state_has_links_to_tombstones", "searches", "empty_snapshot_loaded_into_used_index",
			"cluster_leg_dataset_search_results_checked", "cluster_leg_dataset_searches_after_removal_or_update", "cluster_leg_node_restarts", "cluster_leg_follower_installed_snapshot"},
		Budget: func(tier string) (int, time.Duration) {
			if tier == "thorough" {
				return 400000, 40 * time.Minute
			}
			return 20000, 4 * time.Minute
		},
		Gen:    genC01,
		Exec:   withSample(genC01, execC01),
		Shrink: shrinkIdx,
		// dataset half of the property: World III cluster leg (world3_c01.go)
		Legs: []Leg{{Name: "cluster", RecycleEvery: 25, Gen: withSchedKnobs(genC01Cluster), Seeds: func(tier string) int {
			if tier == "thorough" {
				return 12000
			}
			return 320
		}}},
		MemLimit:    96 << 30, // address space (Badger maps its files); resident memory is watched by the parent
		WallPerSeed: 120 * time.Second,
		DeathSig: func(stderr string, cs json.RawMessage) (string, string) {
			if isClusterCase(cs) {
				return w3DeathSig("C01")(stderr, cs)
			}
			return "", ""
		},
	})
}

var _ = sort.Ints
