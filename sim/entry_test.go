//go:debug randseednop=0
package anndbverif

import (
	"os"
	"strconv"
	"testing"
)

// TestEntry is the only "test": the simulation binary is a test binary because
// testing/synctest wants a *testing.T. Role and parameters come from the
// environment (see /verif/check).
func TestEntry(t *testing.T) {
	theT = t
	if os.Getenv("VERIF_ROLE") == "digest" {
		c := registry[os.Getenv("VERIF_CHECK")]
		seed, _ := strconv.ParseUint(os.Getenv("VERIF_ONE"), 10, 64)
		tier := os.Getenv("VERIF_TIER")
		limitMemory(c)
		digestOne(c, seed, tier)
		return
	}
	code := Entry()
	if code != 0 {
		os.Exit(code)
	}
}

var theT *testing.T
