package anndbverif

// World III scenarios: a generated list of steps (client operations, faults,
// waits) executed against the simulated cluster, the recorded history, the raft
// safety monitors and the final settle phase shared by the cluster checks.

import (
	"context"
	"encoding/json"
	"fmt"
	badger "github.com/dgraph-io/badger/v2"
	"os"
	"sort"
	"strings"
	"time"

	etcdraft "github.com/coreos/etcd/raft"
	"github.com/coreos/etcd/raft/raftpb"
	"github.com/marekgalovic/anndb/index"
	pb "github.com/marekgalovic/anndb/protobuf"
	"github.com/marekgalovic/anndb/storage"
	"github.com/marekgalovic/anndb/storage/wal"
	uuid "github.com/satori/go.uuid"
	"google.golang.org/grpc/codes"
	"google.golang.org/grpc/status"

	"simrt"
)

type W3Op struct {
	K     string    `json:"k"`
	Node  int       `json:"node,omitempty"`
	Ids   []int     `json:"ids,omitempty"`
	Vers  []int     `json:"vers,omitempty"`
	Async bool      `json:"async,omitempty"`
	Ms    int       `json:"ms,omitempty"`
	A     int       `json:"a,omitempty"`
	B     int       `json:"b,omitempty"`
	N     int       `json:"n,omitempty"`
	Q     []float32 `json:"q,omitempty"`
	DS    int       `json:"ds,omitempty"`     // dataset slot (0 = the default dataset)
	Dim   int       `json:"dim,omitempty"`    // override vector dimension (C11/C12)
	DlMs  int       `json:"dl_ms,omitempty"`  // the client's deadline for this write (default 8 s)
	DimAt int       `json:"dim_at,omitempty"` // batches: only the DimAt-th item (1-based) gets the overridden dimension (0: all)
	P     int       `json:"p,omitempty"`
	R     int       `json:"r,omitempty"`
}

type CrashPoint struct {
	Node int `json:"node"`
	Pos  int `json:"pos"` // k-th durable-write boundary side after the workload started (odd: before, even: after)
}

type W3Case struct {
	Cfg        W3Cfg       `json:"cfg"`
	Nodes      int         `json:"nodes"`
	Partitions int         `json:"partitions"`
	Replicas   int         `json:"replicas"`
	Dim        int         `json:"dim"`
	Space      int         `json:"space"`
	NoDataset  bool        `json:"no_dataset,omitempty"`
	Ops        []W3Op      `json:"ops"`
	Crash      *CrashPoint `json:"crash,omitempty"`
	Faults     bool        `json:"faults,omitempty"`
}

type histOp struct {
	op       W3Op
	idx      int
	inv, ret uint64
	done     bool
	err      error
	perId    map[int]string // ok | exists | notfound | unknown | rejected
	res      interface{}
	cop      *clientOp
	tStart   time.Duration
	tEnd     time.Duration
}

type dsInfo struct {
	id            uuid.UUID
	meta          *pb.Dataset
	dim           int
	space         int
	p, r          int
	ackedCreate   bool
	ackedDelete   bool
	unknownCreate bool
	unknownDelete bool
}

type W3Run struct {
	s                   *Sim
	c                   *W3Case
	out                 *Outcome
	hist                []*histOp
	ds                  map[int]*dsInfo
	prop                string
	mon                 *raftMonitor
	baseHit             map[int]int
	settled             bool
	lockHeld            map[int]bool  // nodes whose catalogue locks were held at a quiescent instant
	firstPermanentCrash uint64        // event stamp of the first crash in this run (0: none)
	zeroOnly            bool          // control-plane checks: only the zero group has to converge
	dsCreatedAt         time.Duration // when the default dataset's creation was acknowledged (its partition groups start then: their 10 s snapshot tickers fire at multiples of 10 s from about here)
}

func vecOf(id, ver, dim int) []float32 {
	r := simrt.NewRand(uint64(id)*1000003 + uint64(ver)*7919 + 5)
	v := make([]float32, dim)
	for i := range v {
		v[i] = float32(r.Range(-50, 50)) / 4
	}
	if dim > 0 {
		v[0] = float32(ver)
	}
	return v
}

// metaOf: the metadata a World III write carries. It is a function of (id,
// version, kind) so that every oracle can tell, from a stored item alone, which
// metadata it must hold whatever path the write took (local, proxied, batch,
// replayed, restored from a snapshot):
//   - items with id%4 == 3 never carry metadata;
//   - an insert carries ver, id and born (= its own version);
//   - an update carries ver and id, or (version divisible by 3) ver only, so
//     that "id" and "born" survive only if the partition merges old metadata.
func metaOf(id, ver int, kind string) map[string]string {
	if id%4 == 3 {
		return nil
	}
	m := map[string]string{"ver": fmt.Sprint(ver)}
	switch kind {
	case "ins", "bins":
		m["id"] = fmt.Sprint(id)
		m["born"] = fmt.Sprint(ver)
	default:
		if ver%3 != 0 {
			m["id"] = fmt.Sprint(id)
		}
	}
	return m
}

// metaProblem: what is wrong with the metadata of a stored or returned item
// that holds version ver of id ("" = nothing). insertVers: versions of the
// inserts of this id that were ever submitted (nil: not known, skip that part).
func metaProblem(id, ver int, md map[string]string, insertVers map[int]bool) string {
	if id%4 == 3 {
		if len(md) != 0 {
			return fmt.Sprintf("the item was never given metadata but holds %v", md)
		}
		return ""
	}
	if md["ver"] != fmt.Sprint(ver) {
		return fmt.Sprintf("metadata key ver is %q, the write that stored vector version %d carried %q (metadata %v)", md["ver"], ver, fmt.Sprint(ver), md)
	}
	if md["id"] != fmt.Sprint(id) {
		return fmt.Sprintf("metadata key id is %q, want %q (set by the insert, kept by every update; metadata %v)", md["id"], fmt.Sprint(id), md)
	}
	b, ok := md["born"]
	if !ok {
		return fmt.Sprintf("metadata key born (set by the insert, never overwritten by an update) is missing: %v", md)
	}
	var bv int
	// (born may exceed ver: an update that was in flight for long can land after a later insert)
	if _, err := fmt.Sscan(b, &bv); err != nil {
		return fmt.Sprintf("metadata key born is %q on an item holding version %d", b, ver)
	}
	if insertVers != nil && !insertVers[bv] {
		return fmt.Sprintf("metadata key born is %q, which is not the version of any insert of this id", b)
	}
	if len(md) != 3 {
		return fmt.Sprintf("metadata has keys nobody wrote: %v", md)
	}
	return ""
}

// itemDimOK: does the i-th item of the operation carry a vector of the dataset's dimension?
func itemDimOK(op W3Op, i, dsDim int) bool {
	if op.Dim == 0 || op.Dim == dsDim {
		return true
	}
	if strings.HasPrefix(op.K, "b") && op.DimAt != 0 {
		return op.DimAt != i+1
	}
	return false
}

func errKind(err error) string {
	if err == nil {
		return "ok"
	}
	msg := err.Error()
	if st, ok := status.FromError(err); ok {
		msg = st.Message()
		switch st.Code() {
		case codes.DeadlineExceeded, codes.Canceled, codes.Unavailable:
			return "unknown"
		}
	}
	switch {
	case strings.Contains(msg, "Item already exists"):
		return "exists"
	case strings.Contains(msg, "Item not found"):
		return "notfound"
	case strings.Contains(msg, "Value dimension does not match"), strings.Contains(msg, "Metadata too large"), strings.Contains(msg, "Batch request too large"):
		return "rejected"
	}
	return "unknown"
}

// ---------------------------------------------------------------------------
// raft safety monitors (C05)

type durableSample struct {
	term, vote, commit, first, last uint64
	terms                           map[uint64]uint64 // index -> term for indices <= commit that were seen
}

type raftMonitor struct {
	s         *Sim
	prop      string
	applied   map[string]uint64         // group/index -> digest
	appliedBy map[string]string         // group/index -> who first
	lastIdx   map[string]uint64         // node/inc/group -> last applied index
	leaders   map[string]uint64         // group/term -> leader node
	durable   map[string]*durableSample // node/group -> last sample
	viol      func(sig, format string, a ...interface{})
	injected  map[int]bool   // nodes with injected disk errors (fatal is a legal reaction)
	epoch     map[string]int // node/group -> how often the product deleted / recreated the group's store
	// shadow state machines: every partition group's log, as first applied by anybody, is
	// replayed into a stand-alone partition of the same shape; a snapshot labelled with
	// index L - taken locally or received - must restore to what the shadow held after L
	deletedOn map[string]bool // node/group: the node deleted the group's log (its dataset was deleted)
	shadow    map[uuid.UUID]*shadowPart
	shapeOf   func(group uuid.UUID) (dim, space int, ok bool)
}

type shadowPart struct {
	p       *storage.VerifPartition
	next    uint64            // next index to replay
	pending map[uint64][]byte // entries seen ahead of next (nil payload: the entry does not change the state)
	keys    map[uint64]string // index -> contents after it (the last 96 indices)
	off     bool              // given up (an index was never observed)
}

func newRaftMonitor(s *Sim, viol func(sig, format string, a ...interface{})) *raftMonitor {
	m := &raftMonitor{s: s, applied: map[string]uint64{}, appliedBy: map[string]string{}, lastIdx: map[string]uint64{}, leaders: map[string]uint64{},
		durable: map[string]*durableSample{}, viol: viol, injected: map[int]bool{}, epoch: map[string]int{}, shadow: map[uuid.UUID]*shadowPart{}, deletedOn: map[string]bool{}}
	s.onApply = m.onApply
	s.onApplySync = m.onApplySync
	s.onRaftMsg = m.onRaftMsg
	s.onIO = m.onIO
	return m
}

// forgetDisk: the node's disk was replaced by an empty one (a removed machine that is
// brought back blank): nothing durable is expected of it any more.
func (m *raftMonitor) forgetDisk(n *simNode) {
	prefix := fmt.Sprintf("%d/", n.id)
	for k := range m.durable {
		if strings.HasPrefix(k, prefix) {
			delete(m.durable, k)
		}
	}
}

func gname(s *Sim, g uuid.UUID) string {
	if uuid.Equal(g, uuid.Nil) {
		return "zero-group"
	}
	return "partition-group"
}

func (m *raftMonitor) onApply(a applyRec) {
	nk := fmt.Sprintf("%d/%d/%s", a.node, a.inc, a.group)
	if a.typ == -1 { // snapshot installed / group (re)started: the next entry follows
		if a.index == 0 && m.deletedOn[fmt.Sprintf("%d/%s", a.node, a.group)] {
			// the node starts, from an empty log, the group of a dataset whose log it had deleted
			// (it replays "create" before it reaches "delete"): whoever still runs the old
			// instance of the group will find this replica's log "lost"
			m.s.out.Stat("deleted_groups_loaded_again_during_replay", 1)
			fmt.Fprintf(realStderr, "VERIF-MARK group-of-a-deleted-dataset-loaded-again n%d %s\n", m.s.nodeIdx(a.node), shortG(a.group))
		}
		m.lastIdx[nk] = a.index
		return
	}
	m.s.out.Stat("entries_applied", 1)
	k := fmt.Sprintf("%s/%d", a.group, a.index)
	if d, ok := m.applied[k]; ok {
		if d != a.dig {
			m.viol("state-machine-safety/different-entries-at-one-index/"+gname(m.s, a.group), "group %s index %d: n%d applied a different entry than %s", shortG(a.group), a.index, m.s.nodeIdx(a.node), m.appliedBy[k])
		}
	} else {
		m.applied[k] = a.dig
		m.appliedBy[k] = fmt.Sprintf("n%d (incarnation %d)", m.s.nodeIdx(a.node), a.inc)
		m.feedShadow(a)
	}
	if last, ok := m.lastIdx[nk]; ok {
		if a.index != last+1 {
			m.viol("apply-order/"+gname(m.s, a.group), "group %s: n%d applied index %d after %d", shortG(a.group), m.s.nodeIdx(a.node), a.index, last)
		}
	}
	m.lastIdx[nk] = a.index
}

// onApplySync runs on the replica's own apply goroutine at the instant it hands
// an entry to the state machine: persist, then apply and acknowledge - the
// entry must already be in the node's durable log (read through a fresh store
// instance, i.e. what would survive a crash at this instant), or be covered by
// its snapshot.
func (m *raftMonitor) onApplySync(n *simNode, group uuid.UUID, index uint64) {
	defer func() {
		// the read below is the monitor's own: if the database was closed under it (an
		// incarnation on its way out), that says nothing about the system under test
		if r := recover(); r != nil {
			m.s.out.Stat("apply_time_reads_of_a_closed_database_skipped", 1)
			if os.Getenv("VERIF_DEBUG") != "" {
				fmt.Fprintf(realStderr, "onApplySync: n%d inc=%d alive=%v tag=%d group=%s index=%d: %v\n", n.idx, n.inc, n.alive, runtimeVerifGetTag(), shortG(group), index, r)
			}
		}
	}()
	if m.s.dbClosed[n.parts.DB] || !walHasGroup(n.parts.DB, group) {
		return
	}
	w := wal.NewBadgerWAL(n.parts.DB, group)
	last, err := w.LastIndex()
	if err != nil {
		return
	}
	m.s.out.Stat("applies_checked_against_durable_log", 1)
	if last < index {
		idx := n.idx
		m.s.post(func() {
			m.viol("persist-before-apply/applied-before-durable/"+gname(m.s, group), "group %s: n%d applies index %d while its durable log ends at %d (a crash at this instant loses an entry whose outcome is being acknowledged)", shortG(group), idx, index, last)
		})
	}
}

// feedShadow replays a partition group's entry (seen for the first time) into the group's
// shadow state machine, strictly in index order.
func (m *raftMonitor) feedShadow(a applyRec) {
	if uuid.Equal(a.group, uuid.Nil) || m.shapeOf == nil {
		return
	}
	sh := m.shadow[a.group]
	if sh == nil {
		sh = &shadowPart{next: 1, pending: map[uint64][]byte{}, keys: map[uint64]string{}}
		m.shadow[a.group] = sh
	}
	if sh.off || a.index < sh.next {
		return
	}
	sh.pending[a.index] = a.data
	if len(sh.pending) > 512 {
		sh.off = true // an index in between was never observed (or the group belongs to no known dataset): not judged
		return
	}
	if sh.p == nil {
		// the group's first entries can be applied before the harness has seen the answer to
		// the create request that tells it the dataset's shape: they wait in pending
		dim, space, ok := m.shapeOf(a.group)
		if !ok {
			return
		}
		sh.p = storage.NewVerifPartition(uint32(dim), pb.Space(space))
		sh.keys[0] = contentsKey(sh.p.Dump())
	}
	for {
		data, ok := sh.pending[sh.next]
		if !ok {
			return
		}
		delete(sh.pending, sh.next)
		if len(data) > 0 {
			func() {
				defer func() {
					if recover() != nil {
						sh.off = true
					}
				}()
				if _, _, err := sh.p.Apply(data, uuid.Nil); err != nil {
					sh.off = true
				}
			}()
			if sh.off {
				return
			}
			sh.keys[sh.next] = contentsKey(sh.p.Dump())
		} else {
			sh.keys[sh.next] = sh.keys[sh.next-1]
		}
		delete(sh.keys, sh.next-96)
		sh.next++
	}
}

// checkSnapshot: the snapshot the node's log store holds now for the group (just taken
// locally, or just received) restores to what the log up to its index produces.
func (m *raftMonitor) checkSnapshot(n *simNode, group uuid.UUID, why string) {
	sh := m.shadow[group]
	if uuid.Equal(group, uuid.Nil) {
		return
	}
	if sh == nil || sh.off || sh.p == nil || n.parts == nil || m.s.groupOn(n, group) == nil {
		return
	}
	if !walHasGroup(n.parts.DB, group) {
		return
	}
	snap, err := wal.NewBadgerWAL(n.parts.DB, group).Snapshot()
	if err != nil || len(snap.Data) == 0 {
		return
	}
	want, ok := sh.keys[snap.Metadata.Index]
	if !ok {
		m.s.out.Stat("snapshots_not_compared_because_the_shadow_lacks_their_index", 1)
		return
	}
	dim, space, ok := m.shapeOf(group)
	if !ok {
		return
	}
	got := ""
	func() {
		defer func() {
			if r := recover(); r != nil {
				got = fmt.Sprintf("restore panicked: %v", r)
			}
		}()
		fresh := storage.NewVerifPartition(uint32(dim), pb.Space(space))
		if err := fresh.Restore(snap.Data); err != nil {
			got = "restore failed: " + err.Error()
			return
		}
		got = contentsKey(fresh.Dump())
	}()
	m.s.out.Stat("snapshots_compared_with_replay_of_the_log", 1)
	if got != want {
		m.viol("snapshot-differs-from-replay/"+firstWord(why), "group %s on n%d: the snapshot labelled with index %d (%s) does not restore to what the log up to %d produces (%d vs %d bytes of canonical contents%s)", shortG(group), n.idx, snap.Metadata.Index, why, snap.Metadata.Index, len(got), len(want), map[bool]string{true: "; " + got, false: ""}[strings.HasPrefix(got, "restore")])
	}
}

// walHasGroup: does the database hold any log entry of the group? (Opening a log store
// on an empty group writes its initial entry - the monitors must observe, never write.)
func walHasGroup(db *badger.DB, group uuid.UUID) (has bool) {
	defer func() {
		if recover() != nil {
			has = false
		}
	}()
	db.View(func(txn *badger.Txn) error {
		opt := badger.DefaultIteratorOptions
		opt.PrefetchValues = false
		opt.Prefix = group.Bytes()
		it := txn.NewIterator(opt)
		defer it.Close()
		it.Rewind()
		has = it.Valid()
		return nil
	})
	return
}

// durableOf reads what the node's log store holds for a group through a
// fresh store instance (cold cache), i.e. what would survive a crash now.
func (m *raftMonitor) durableOf(n *simNode, group uuid.UUID) *durableSample {
	if n.parts == nil {
		return nil
	}
	if m.s.groupOn(n, group) == nil || !walHasGroup(n.parts.DB, group) {
		return nil
	}
	w := wal.NewBadgerWAL(n.parts.DB, group)
	hs, _, err := w.InitialState()
	if err != nil {
		return nil
	}
	first, err1 := w.FirstIndex()
	last, err2 := w.LastIndex()
	if err1 != nil || err2 != nil {
		return nil
	}
	return &durableSample{term: hs.Term, vote: hs.Vote, commit: hs.Commit, first: first, last: last}
}

func (m *raftMonitor) onRaftMsg(from *simNode, to uint64, group uuid.UUID, msg raftpb.Message) {
	switch msg.Type {
	case raftpb.MsgApp, raftpb.MsgHeartbeat, raftpb.MsgSnap:
		k := fmt.Sprintf("%s/%d", group, msg.Term)
		if l, ok := m.leaders[k]; ok && l != msg.From {
			m.viol("election-safety/two-leaders-in-one-term/"+gname(m.s, group), "group %s term %d: both n%d and n%d act as leader", shortG(group), msg.Term, m.s.nodeIdx(l), m.s.nodeIdx(msg.From))
		}
		m.leaders[k] = msg.From
		if msg.Type == raftpb.MsgSnap {
			m.s.out.Stat("leader_sent_snapshot", 1)
		}
	case raftpb.MsgVoteResp:
		if msg.Reject {
			return
		}
		d := m.durableOf(from, group)
		if d == nil {
			return
		}
		m.s.out.Stat("vote_grants_checked_against_durable_state", 1)
		if d.term < msg.Term || (d.term == msg.Term && d.vote != msg.To) {
			m.viol("persist-before-reveal/vote-granted-before-durable/"+gname(m.s, group), "group %s: n%d grants its vote to n%d in term %d but its durable hard state is term %d vote %d", shortG(group), from.idx, m.s.nodeIdx(msg.To), msg.Term, d.term, m.s.nodeIdx(d.vote))
		}
	case raftpb.MsgAppResp:
		if msg.Reject {
			return
		}
		d := m.durableOf(from, group)
		if d == nil {
			return
		}
		if msg.Term < d.term {
			// The product's transport queues messages and sends one at a time: this
			// acknowledgement left the raft loop in an earlier term than the one the node
			// has durably reached by now. A leader of the newer term may have replaced the
			// acknowledged suffix meanwhile (legal: the entries were durable when the
			// acknowledgement was made, and raft tolerates delayed messages). The durable
			// log of now says nothing about then.
			m.s.out.Stat("append_acks_of_an_older_term_not_judged", 1)
			return
		}
		m.s.out.Stat("append_acks_checked_against_durable_state", 1)
		if d.last < msg.Index {
			m.viol("persist-before-reveal/append-acknowledged-before-durable/"+gname(m.s, group), "group %s: n%d acknowledges entries up to %d but its durable log ends at %d", shortG(group), from.idx, msg.Index, d.last)
		}
	}
}

// onIO: after every completed durable write, sample the durable state of the
// group and compare with the previous sample of the same (node, group).
func (m *raftMonitor) onIO(n *simNode, group uuid.UUID, op string, before bool) {

	if before || n.parts == nil {
		if op == "reset" && before {
			// the product deletes / recreates the group's store: expectations start over
			// (queued behind the apply records of the old instance that are still in the mailbox)
			dk, lk := fmt.Sprintf("%d/%s", n.id, group), fmt.Sprintf("%d/%d/%s", n.id, n.inc, group)
			if d := m.durable[dk]; d != nil && d.last > 0 && !uuid.Equal(group, uuid.Nil) {
				m.deletedOn[dk] = true // a log that held entries is deleted: the group is gone for good on this node
			}
			m.epoch[dk]++ // samples requested before this instant must not read the new store
			m.s.post(func() {
				delete(m.durable, dk)
				delete(m.lastIdx, lk)
			})
		}
		return
	}
	if op == "save" || op == "raftid" || op == "reset" {
		return
	}
	inc := n.inc
	ek := fmt.Sprintf("%d/%s", n.id, group)
	epoch := m.epoch[ek]

	m.s.post(func() {
		if !n.alive || n.inc != inc || m.epoch[ek] != epoch {
			return
		}
		m.sample(n, group, op)
		if strings.Contains(op, "snapshot") {
			m.checkSnapshot(n, group, op)
		}
	})
}

func (m *raftMonitor) sample(n *simNode, group uuid.UUID, why string) {
	d := m.durableOf(n, group)
	if d == nil {
		return
	}
	k := fmt.Sprintf("%d/%s", n.id, group)
	prev := m.durable[k]
	w := wal.NewBadgerWAL(n.parts.DB, group)
	d.terms = map[uint64]uint64{}
	lo := d.first
	for i := lo; i <= d.commit && i <= d.last && i < lo+64; i++ {
		if t, err := w.Term(i); err == nil {
			d.terms[i] = t
		}
	}
	if d.commit > 64 {
		for i := d.commit - 8; i <= d.commit && i <= d.last; i++ {
			if i >= d.first {
				if t, err := w.Term(i); err == nil {
					d.terms[i] = t
				}
			}
		}
	}
	// Raft never produces a log whose terms decrease with the index. A durable log that
	// does holds the remains of a suffix that a later leader replaced: the replica would
	// come back from a restart with entries it had already given up.
	if strings.Contains(why, "entries") && d.last > d.first {
		lo := d.first
		if d.last > 12 && d.last-12 > lo {
			lo = d.last - 12
		}
		var pt uint64
		for i := lo; i <= d.last; i++ {
			t, err := w.Term(i)
			if err != nil {
				break
			}
			if t < pt {
				m.viol("durable-log/terms-decrease/"+gname(m.s, group), "group %s on n%d: the durable log has term %d at index %d after term %d at index %d (%s)", shortG(group), n.idx, t, i, pt, i-1, why)
				break
			}
			pt = t
		}
		m.s.out.Stat("durable_log_tails_checked", 1)
	}
	if prev != nil {
		m.s.out.Stat("durable_state_samples_compared", 1)
		if d.term < prev.term {
			m.viol("durable-regression/term-decreased/"+gname(m.s, group), "group %s on n%d: durable term went from %d to %d (%s)", shortG(group), n.idx, prev.term, d.term, why)
		}
		if d.commit < prev.commit {
			m.viol("durable-regression/commit-decreased/"+gname(m.s, group), "group %s on n%d: durable commit went from %d to %d (%s)", shortG(group), n.idx, prev.commit, d.commit, why)
		}
		for i, t := range prev.terms {
			if i > prev.commit {
				continue
			}
			if nt, ok := d.terms[i]; ok && nt != t {
				m.viol("durable-regression/committed-entry-rewritten/"+gname(m.s, group), "group %s on n%d: committed index %d had term %d, now term %d (%s)", shortG(group), n.idx, i, t, nt, why)
				break
			}
		}
		for i, t := range prev.terms {
			if _, ok := d.terms[i]; !ok && i >= d.first && i <= d.commit {
				d.terms[i] = t
			}
		}
	}
	m.durable[k] = d
}

// ---------------------------------------------------------------------------
// running a scenario

func (r *W3Run) viol(sig, format string, a ...interface{}) {
	r.out.Violate(r.prop, sig, format, a...)
}

func (r *W3Run) aliveNodes() []*simNode {
	var out []*simNode
	for _, n := range r.s.nodes {
		if n.alive && n.parts != nil && n.joined && !n.limbo {
			out = append(out, n)
		}
	}
	return out
}

func (r *W3Run) datasetOn(n *simNode, id uuid.UUID) *storage.VerifDatasetInfo {
	if n.parts == nil {
		return nil
	}
	ds, ok := n.parts.DatasetManager.VerifDatasets()
	if !ok {
		r.lockHeld[n.idx] = true
	}
	for _, d := range ds {
		if d.Id == id {
			return d
		}
	}
	return nil
}

// partitionsLoaded: every partition of the dataset has its raft group loaded on
// every alive node that hosts it, and has a leader.
func (r *W3Run) partitionsReady(id uuid.UUID) bool {
	seen := false
	for _, n := range r.aliveNodes() {
		d := r.datasetOn(n, id)
		if d == nil {
			return false
		}
		for _, p := range d.Partitions {
			hosted := false
			for _, nid := range p.NodeIds {
				if nid == n.id {
					hosted = true
				}
			}
			if hosted && !p.RaftLoaded {
				return false
			}
			if hosted {
				seen = true
			}
			if l, _ := r.s.leaderOf(p.Id); l == nil {
				// a leader may live on a node that is down; require one among alive nodes
				anyAliveHost := false
				for _, nid := range p.NodeIds {
					if hn := r.s.byId[nid]; hn != nil && hn.alive {
						anyAliveHost = true
					}
				}
				if anyAliveHost {
					return false
				}
			}
		}
	}
	return seen
}

func (r *W3Run) createDataset(slot int, via *simNode, p, rep, dim, space int, wait bool) *histOp {
	h := &histOp{op: W3Op{K: "create", DS: slot, Node: via.idx, P: p, R: rep}, idx: len(r.hist)}
	r.hist = append(r.hist, h)
	info := &dsInfo{dim: dim, space: space, p: p, r: rep}
	r.ds[slot] = info
	h.cop = r.s.client(via, fmt.Sprintf("create-dataset#%d P=%d R=%d", slot, p, rep), 5*time.Second, func(ctx context.Context, n *simNode) (interface{}, error) {
		return n.svcDM.Create(ctx, &pb.Dataset{Dimension: uint32(dim), Space: pb.Space(space), PartitionCount: uint32(p), ReplicationFactor: uint32(rep)})
	})
	if wait {
		r.s.runUntil(func() bool { return h.cop.done }, 10*time.Second)
		r.finishOp(h)
	}
	return h
}

func (r *W3Run) finishOp(h *histOp) {
	if h.done || h.cop == nil || !h.cop.done {
		return
	}
	h.done = true
	h.inv, h.ret = h.cop.inv, h.cop.ret
	h.err, h.res = h.cop.err, h.cop.res
	if h.cop.lost {
		h.err = status.Error(codes.Unavailable, "node died before answering")
	}
	switch h.op.K {
	case "create":
		info := r.ds[h.op.DS]
		if h.err == nil {
			d := h.res.(*pb.Dataset)
			info.id, _ = uuid.FromBytes(d.Id)
			info.meta = d
			info.ackedCreate = true
		} else {
			info.unknownCreate = true
		}
	case "ins", "upd", "rem":
		h.perId = map[int]string{h.op.Ids[0]: errKind(h.err)}
	case "bins", "bupd", "brem":
		h.perId = map[int]string{}
		if h.err != nil {
			k := errKind(h.err)
			if k != "rejected" {
				k = "unknown"
			}
			for _, id := range h.op.Ids {
				h.perId[id] = k
			}
		} else {
			resp := h.res.(*pb.BatchResponse)
			for _, id := range h.op.Ids {
				h.perId[id] = "ok"
			}
			for sid, msg := range resp.GetErrors() {
				for _, id := range h.op.Ids {
					if idOf(id).String() == sid {
						h.perId[id] = errKind(status.Error(codes.Unknown, msg))
						if strings.Contains(msg, "deadline") || strings.Contains(msg, "Deadline") || strings.Contains(msg, "simulated network") || strings.Contains(msg, "Raft is not loaded") {
							h.perId[id] = "unknown"
						}
					}
				}
			}
		}
	}
}

func (r *W3Run) startWrite(h *histOp) {
	op := h.op
	n := r.s.nodes[op.Node-1]
	info := r.ds[op.DS]
	if info == nil || info.id == (uuid.UUID{}) {
		h.done = true
		h.err = fmt.Errorf("no dataset")
		h.perId = map[int]string{}
		for _, id := range op.Ids {
			h.perId[id] = "rejected"
		}
		return
	}
	dim := info.dim
	if op.Dim != 0 {
		dim = op.Dim
	}
	dsid := info.id.Bytes()
	items := func() []*pb.BatchItem {
		var its []*pb.BatchItem
		for i, id := range op.Ids {
			it := &pb.BatchItem{Id: idOf(id).Bytes()}
			if op.K != "brem" {
				dim := info.dim
				if !itemDimOK(op, i, info.dim) {
					dim = op.Dim
				}
				it.Value = vecOf(id, op.Vers[i], dim)
				it.Metadata = metaOf(id, op.Vers[i], op.K)
			}
			its = append(its, it)
		}
		return its
	}
	name := fmt.Sprintf("%s ids=%v vers=%v", op.K, op.Ids, op.Vers)
	deadline := 8 * time.Second
	if op.DlMs > 0 {
		deadline = time.Duration(op.DlMs) * time.Millisecond
		name += fmt.Sprintf(" deadline=%dms", op.DlMs)
	}
	h.cop = r.s.client(n, name, deadline, func(ctx context.Context, n *simNode) (interface{}, error) {
		switch op.K {
		case "ins":
			return n.svcData.Insert(ctx, &pb.InsertRequest{DatasetId: dsid, Id: idOf(op.Ids[0]).Bytes(), Value: vecOf(op.Ids[0], op.Vers[0], dim), Metadata: metaOf(op.Ids[0], op.Vers[0], "ins")})
		case "upd":
			return n.svcData.Update(ctx, &pb.UpdateRequest{DatasetId: dsid, Id: idOf(op.Ids[0]).Bytes(), Value: vecOf(op.Ids[0], op.Vers[0], dim), Metadata: metaOf(op.Ids[0], op.Vers[0], "upd")})
		case "rem":
			return n.svcData.Remove(ctx, &pb.RemoveRequest{DatasetId: dsid, Id: idOf(op.Ids[0]).Bytes()})
		case "bins":
			return n.svcData.BatchInsert(ctx, &pb.BatchRequest{DatasetId: dsid, Items: items()})
		case "bupd":
			return n.svcData.BatchUpdate(ctx, &pb.BatchRequest{DatasetId: dsid, Items: items()})
		case "brem":
			return n.svcData.BatchRemove(ctx, &pb.BatchRequest{DatasetId: dsid, Items: items()})
		}
		return nil, fmt.Errorf("unknown op")
	})
}

func (r *W3Run) pendingOps() int {
	k := 0
	for _, h := range r.hist {
		if !h.done {
			if h.cop != nil && h.cop.done {
				r.finishOp(h)
			} else {
				k++
			}
		}
	}
	return k
}

func (r *W3Run) waitAll(max time.Duration) {
	r.s.runUntil(func() bool { return r.pendingOps() == 0 }, max)
}

// execOps runs the generated steps.
func (r *W3Run) execOps() {
	s := r.s
	for i, op := range r.c.Ops {
		switch op.K {
		case "ins", "upd", "rem", "bins", "bupd", "brem":
			if op.Node < 1 || op.Node > len(s.nodes) {
				continue
			}
			h := &histOp{op: op, idx: i, tStart: s.now()}
			r.hist = append(r.hist, h)
			r.startWrite(h)
			s.out.Stat("client_writes", 1)
			if !op.Async {
				s.runUntil(func() bool { return h.cop == nil || h.cop.done }, 12*time.Second)
				r.finishOp(h)
			} else {
				s.runFor(time.Duration(op.Ms) * time.Millisecond)
			}
		case "wait":
			s.runFor(time.Duration(op.Ms) * time.Millisecond)
		case "svcread":
			// read-only catalogue requests through the service layer (Get with and without
			// sizes, List): they must not change anything a later snapshot records
			if op.Node >= 1 && op.Node <= len(s.nodes) && s.nodes[op.Node-1].alive && s.nodes[op.Node-1].parts != nil {
				n := s.nodes[op.Node-1]
				slots := make([]int, 0, len(r.ds))
				for slot := range r.ds {
					slots = append(slots, slot)
				}
				sort.Ints(slots)
				for _, slot := range slots {
					info := r.ds[slot]
					if info == nil || !info.ackedCreate {
						continue
					}
					id := info.id
					g := s.client(n, fmt.Sprintf("get-dataset#%d", slot), 5*time.Second, func(ctx context.Context, n *simNode) (interface{}, error) {
						return n.svcDM.Get(ctx, &pb.GetDatasetRequest{DatasetId: id.Bytes(), WithSize: op.A == 1})
					})
					s.runUntil(func() bool { return g.done }, 8*time.Second)
				}
				l := s.client(n, "list-datasets", 5*time.Second, func(ctx context.Context, n *simNode) (interface{}, error) {
					return nil, n.svcDM.List(&pb.ListDatasetsRequest{WithSize: op.A == 1}, srvStreamDatasets{&fakeServerStream{ctx: ctx}})
				})
				s.runUntil(func() bool { return l.done }, 8*time.Second)
				s.out.Stat("service_level_catalogue_reads", 1)
			}
		case "crash":
			if op.Node >= 1 && op.Node <= len(s.nodes) && s.nodes[op.Node-1].alive {
				s.pump()
				s.stopNode(s.nodes[op.Node-1], true)
				s.out.Stat("fault_crash_at_quiescence", 1)
				if r.firstPermanentCrash == 0 {
					r.firstPermanentCrash = s.stamp()
				}
			}
		case "crashat":
			// arm a crash of the node at its N-th next durable-write boundary side (odd: just
			// before the write, even: just after it)
			if op.Node >= 1 && op.Node <= len(s.nodes) && s.nodes[op.Node-1].alive && op.N > 0 {
				n := s.nodes[op.Node-1]
				n.crashAt = 2*n.hookHit + op.N
				s.logf("n%d will crash at durable-write boundary position +%d", n.idx, op.N)
				s.out.Stat("crash_points_armed", 1)
			}
		case "delds":
			// the dataset is deleted through a node - while earlier writes may still be in flight
			if op.Node >= 1 && op.Node <= len(s.nodes) && s.nodes[op.Node-1].alive {
				if info := r.ds[op.DS]; info != nil && info.ackedCreate {
					id := info.id
					d := s.client(s.nodes[op.Node-1], fmt.Sprintf("delete-dataset#%d", op.DS), 5*time.Second, func(ctx context.Context, n *simNode) (interface{}, error) {
						return n.svcDM.Delete(ctx, &pb.UUIDRequest{Id: id.Bytes()})
					})
					s.runUntil(func() bool { return d.done }, 8*time.Second)
					if d.done && d.err == nil {
						info.ackedDelete = true
					} else {
						info.unknownDelete = true
					}
					s.out.Stat("datasets_deleted_under_traffic", 1)
				}
			}
		case "wait-tick":
			// wait until Ms milliseconds before the next firing of the partition groups' 10 s
			// snapshot tickers, so that what follows straddles the snapshot
			if r.dsCreatedAt > 0 {
				period := 10 * time.Second
				lead := time.Duration(op.Ms) * time.Millisecond
				next := r.dsCreatedAt
				for next-lead <= s.now() {
					next += period
				}
				s.runFor(next - lead - s.now())
				s.out.Stat("workloads_straddling_a_snapshot_tick", 1)
			}
		case "track-items":
			s.trackItems = true
		case "diskerr":
			// the N-th next Save / local snapshot of the node fails with a disk error (disk full)
			if op.Node >= 1 && op.Node <= len(s.nodes) && s.nodes[op.Node-1].alive && op.N > 0 {
				n := s.nodes[op.Node-1]
				n.errAt, n.errSeen = op.N, 0
				n.errStays = op.A == 1 // A=1: the disk stays full until the process is restarted
				s.out.Stat("disk_errors_armed", 1)
			}
		case "restart":
			if op.Node >= 1 && op.Node <= len(s.nodes) && !s.nodes[op.Node-1].alive {
				if err := s.startNode(s.nodes[op.Node-1]); err != nil {
					r.viol("restart-failed/"+restartClass(err), "n%d could not restart: %v", op.Node, err)
					return
				}
			}
		case "crashall":
			s.pump()
			for _, n := range s.nodes {
				if n.alive {
					s.stopNode(n, true)
				}
			}
			s.out.Stat("fault_crash_all_nodes", 1)
		case "part":
			if op.A >= 1 && op.B >= 1 && op.A <= len(s.nodes) && op.B <= len(s.nodes) && op.A != op.B {
				s.blocked[[2]uint64{uint64(op.A), uint64(op.B)}] = true
				s.blocked[[2]uint64{uint64(op.B), uint64(op.A)}] = true
				s.logf("partition n%d <-> n%d", op.A, op.B)
				s.out.Stat("fault_partition", 1)
			}
		case "oneway":
			if op.A >= 1 && op.B >= 1 && op.A <= len(s.nodes) && op.B <= len(s.nodes) && op.A != op.B {
				s.blocked[[2]uint64{uint64(op.A), uint64(op.B)}] = true
				s.logf("one-way partition n%d -> n%d", op.A, op.B)
				s.out.Stat("fault_partition_one_way", 1)
			}
		case "isolate":
			if op.Node >= 1 && op.Node <= len(s.nodes) {
				for _, o := range s.nodes {
					if o.idx != op.Node {
						s.blocked[[2]uint64{uint64(op.Node), o.id}] = true
						s.blocked[[2]uint64{o.id, uint64(op.Node)}] = true
					}
				}
				s.logf("isolate n%d", op.Node)
				s.out.Stat("fault_isolate_node", 1)
			}
		case "heal":
			s.blocked = map[[2]uint64]bool{}
			s.logf("heal")
			s.out.Stat("fault_heal", 1)
		case "settle":
			r.waitAll(20 * time.Second)
			if !r.settle() {
				return
			}
		case "removenode":
			if op.Node >= 1 && op.Node <= len(s.nodes) && s.nodes[op.Node-1].alive && op.A >= 1 && op.A <= len(s.nodes) {
				via, target := s.nodes[op.Node-1], s.nodes[op.A-1]
				h := &histOp{op: op, idx: i}
				r.hist = append(r.hist, h)
				h.cop = s.client(via, fmt.Sprintf("remove-node n%d", target.idx), 5*time.Second, func(ctx context.Context, n *simNode) (interface{}, error) {
					return n.svcNM.RemoveNode(ctx, &pb.Node{Id: target.id})
				})
				s.runUntil(func() bool { return h.cop.done }, 8*time.Second)
				h.done, h.err = h.cop.done, h.cop.err
				s.out.Stat("node_removed_from_membership", 1)
			}
		case "pause-proposers":
			// hook H5: hold every proposer between Propose and its wait for 300 simulated ms
			s.pauseHook = func(nodeId uint64, partition uuid.UUID, point string) {
				s.mu.Lock()
				s.paused++
				s.mu.Unlock()
				time.Sleep(300 * time.Millisecond)
			}
		}
		if i%4 == 3 {
			r.pendingOps()
		}
	}
}

// settle: faults stop, partitions heal, every node restarts; the cluster must
// converge within 120 simulated seconds.
func (r *W3Run) settle() bool {
	s := r.s
	s.faultsOn = false
	s.blocked = map[[2]uint64]bool{}
	for _, n := range s.nodes {
		n.crashAt = 0
		n.errAt, n.errSeen, n.diskFullInc = 0, 0, 0 // (somebody made room on a full disk)
	}
	s.pump()
	// a supervisor restarts processes that are down (start-up can fail while the
	// node it joins through is still down)
	allUp := func() bool {
		for _, n := range s.nodes {
			if n.retired || n.limbo {
				continue
			}
			if !n.alive || !n.joined {
				return false
			}
		}
		return true
	}
	for attempt := 0; attempt < 12 && !allUp(); attempt++ {
		for _, n := range s.nodes {
			if !n.alive && !n.retired {
				if err := s.startNode(n); err != nil {
					r.viol("restart-failed/"+restartClass(err), "n%d could not restart: %v", n.idx, err)
					return false
				}
			}
		}
		s.runUntil(allUp, 10*time.Second)
	}
	if !allUp() {
		r.viol("restart-failed/cannot-rejoin", "with all faults stopped, some node could not complete its start-up (join) in 12 attempts: %s", r.describeStuck())
		return false
	}
	r.waitAll(30 * time.Second)
	if os.Getenv("VERIF_DEBUG") != "" {
		s.logf("settle: state right after restarts: %s", r.describeStuck())
	}
	ok := s.runUntil(r.converged, 120*time.Second)
	r.settled = ok
	return ok
}

func (r *W3Run) converged() bool {
	s := r.s
	alive := r.aliveNodes()
	if len(alive) == 0 {
		return false
	}
	// zero group
	groups := map[uuid.UUID]bool{uuid.Nil: true}
	for _, n := range alive {
		for _, g := range n.parts.RaftTransport.VerifGroups() {
			groups[g.VerifId()] = true
		}
	}
	for gid := range groups {
		if r.zeroOnly && !uuid.Equal(gid, uuid.Nil) {
			continue
		}
		var applied, term, lead uint64
		first := true
		hasLeader := false
		cnt := 0
		for _, n := range alive {
			g := s.groupOn(n, gid)
			if g == nil {
				continue
			}
			cnt++
			st := g.VerifStatus()
			if st.RaftState == etcdraft.StateLeader {
				hasLeader = true
			}
			if st.Applied != st.Commit {
				return false
			}
			if first {
				applied, term, lead, first = st.Applied, st.Term, st.Lead, false
			} else if st.Applied != applied || st.Term != term || st.Lead != lead {
				return false
			}
			if st.Lead == 0 {
				return false
			}
		}
		if cnt > 0 && !hasLeader {
			// the leader may be a node nothing is asserted about (removal never acknowledged)
			ln := s.byId[lead]
			if ln == nil || !ln.alive || !ln.limbo {
				return false
			}
		}
	}
	// every dataset known to anyone has its hosted partitions loaded
	for _, n := range alive {
		ds, ok := n.parts.DatasetManager.VerifDatasets()
		if !ok {
			r.lockHeld[n.idx] = true
			return false
		}
		delete(r.lockHeld, n.idx)
		for _, d := range ds {
			for _, p := range d.Partitions {
				for _, nid := range p.NodeIds {
					if nid == n.id && !p.RaftLoaded {
						return false
					}
				}
			}
		}
	}
	return true
}

func (r *W3Run) checkNoDeath() {
	for _, n := range r.s.nodes {
		if len(n.fatal) > 0 && !r.mon.injected[n.idx] {
			r.viol("node-died/log.Fatal/"+firstWord(n.fatal[0]), "n%d called log.Fatal: %s", n.idx, n.fatal[0])
		}
	}
}

// replicaDumps returns, per partition id of a dataset, the dump of every alive replica.
func (r *W3Run) replicaDumps(id uuid.UUID) map[uuid.UUID]map[int]*index.VerifState {
	out := map[uuid.UUID]map[int]*index.VerifState{}
	for _, n := range r.aliveNodes() {
		d := r.datasetOn(n, id)
		if d == nil {
			continue
		}
		for _, p := range d.Partitions {
			if !p.RaftLoaded {
				continue
			}
			if out[p.Id] == nil {
				out[p.Id] = map[int]*index.VerifState{}
			}
			out[p.Id][n.idx] = p.Dump()
		}
	}
	return out
}

// runScenario is the common skeleton: cluster, dataset, steps, settle, oracle.
func runScenario(c *W3Case, prop string, out *Outcome, wantLog bool, before func(r *W3Run), after func(r *W3Run)) {
	runBubble(out, func() {
		s := newSim(c.Cfg, out, wantLog)
		defer func() {
			out.SimSeconds = s.now().Seconds()
			if s.deepYields > 0 {
				out.Stat("deep_yields", int64(s.deepYields))
				s.logf("deep yields: %d (of which long: %d)", s.deepYields, s.longYields)
			}
			out.TraceHash = s.h
			out.Log = s.log
			out.Stat("driver_steps", int64(s.steps))
			if s.paused > 0 {
				out.Stat("proposers_paused", int64(s.paused))
			}
			s.close()
		}()
		r := &W3Run{s: s, c: c, out: out, ds: map[int]*dsInfo{}, prop: prop, baseHit: map[int]int{}, lockHeld: map[int]bool{}}
		r.mon = newRaftMonitor(s, r.viol)
		r.mon.shapeOf = func(group uuid.UUID) (int, int, bool) {
			for _, info := range r.ds {
				if info == nil || info.meta == nil {
					continue
				}
				for _, p := range info.meta.GetPartitions() {
					if string(p.GetId()) == string(group.Bytes()) {
						return info.dim, info.space, true
					}
				}
			}
			return 0, 0, false
		}
		if !s.formCluster(c.Nodes) {
			r.viol("cluster-did-not-form", "a fault-free cluster of %d nodes did not form within the bound", c.Nodes)
			return
		}
		if !c.NoDataset {
			h := r.createDataset(0, s.nodes[0], c.Partitions, c.Replicas, c.Dim, c.Space, true)
			// a create gives up by itself after one second; right after five nodes have
			// joined the cluster's own group can legally be busy for longer than that
			for attempt := 0; attempt < 10 && h.err != nil && status.Code(h.err) != codes.InvalidArgument; attempt++ {
				s.runFor(time.Second)
				h = r.createDataset(0, s.nodes[0], c.Partitions, c.Replicas, c.Dim, c.Space, true)
			}
			if h.err != nil {
				r.viol("dataset-create-failed", "fault-free create failed: %v", h.err)
				return
			}
			id := r.ds[0].id
			r.dsCreatedAt = s.now()
			if !s.runUntil(func() bool { return r.partitionsReady(id) }, 30*time.Second) {
				r.viol("partitions-not-ready", "partition groups of a new dataset did not elect leaders within 30 s")
				return
			}
		}
		for _, n := range s.nodes {
			r.baseHit[n.idx] = n.hookHit
		}
		if c.Crash != nil && c.Crash.Node >= 1 && c.Crash.Node <= len(s.nodes) {
			n := s.nodes[c.Crash.Node-1]
			n.crashAt = 2*n.hookHit + c.Crash.Pos
		}
		s.faultsOn = c.Faults
		if before != nil {
			before(r)
		}
		r.execOps()
		r.pendingOps()
		if after != nil {
			after(r)
		}
	})
}

var _ = json.Marshal
var _ = sort.Ints

func restartClass(err error) string {
	msg := err.Error()
	if strings.HasPrefix(msg, "panic in ") {
		return strings.SplitN(msg, ":", 2)[0]
	}
	return firstWords(msg, 5)
}
