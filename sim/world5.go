package anndbverif

// World V: a real DatasetManager + Allocator + cluster.Conn over a scripted
// raft.Group (the interface the code already has), inside a synctest bubble.
// Decides C16 (placement).

import (
	"context"
	"encoding/json"
	"fmt"
	"math"
	"os"
	"runtime/debug"
	"sort"
	"sync"
	"testing/synctest"
	"time"

	"github.com/marekgalovic/anndb/cluster"
	pb "github.com/marekgalovic/anndb/protobuf"
	"github.com/marekgalovic/anndb/storage"
	"github.com/marekgalovic/anndb/storage/raft"

	"simrt"
)

// scriptedGroup implements raft.Group: proposals are queued and applied by the
// harness on its own goroutine, one by one, when the harness decides.
type scriptedGroup struct {
	mu        sync.Mutex
	processFn raft.ProcessFn
	snapFn    raft.SnapshotFn
	procSnap  raft.ProcessFn
	queue     [][]byte
	applied   [][]byte
}

func (g *scriptedGroup) RegisterProcessFn(fn raft.ProcessFn) error { g.processFn = fn; return nil }
func (g *scriptedGroup) RegisterProcessSnapshotFn(fn raft.ProcessFn) error {
	g.procSnap = fn
	return nil
}
func (g *scriptedGroup) RegisterSnapshotFn(fn raft.SnapshotFn) error { g.snapFn = fn; return nil }
func (g *scriptedGroup) LeaderId() uint64                            { return 1 }
func (g *scriptedGroup) Propose(ctx context.Context, data []byte) error {
	g.mu.Lock()
	g.queue = append(g.queue, append([]byte(nil), data...))
	g.mu.Unlock()
	return nil
}
func (g *scriptedGroup) take() []byte {
	g.mu.Lock()
	defer g.mu.Unlock()
	if len(g.queue) == 0 {
		return nil
	}
	d := g.queue[0]
	g.queue = g.queue[1:]
	return d
}

type PlaceCase struct {
	N        int    `json:"n"` // members
	R        int    `json:"r"` // replication factor
	P        int    `json:"p"` // partitions
	D        int    `json:"d"` // datasets created in this run
	Seed     uint64 `json:"seed"`
	SelfIsIn bool   `json:"self_is_member"`
	Churn    []int  `json:"churn,omitempty"` // after each dataset: member that leaves (>0) or joins again (<0)
}

func genC16(r *simrt.Rand, tier string) json.RawMessage {
	c := PlaceCase{N: r.Range(1, 16), R: r.Range(1, 8), P: r.Range(1, 64), D: r.Range(1, 3), Seed: r.Uint64()}
	if r.Bool(0.25) { // batch large enough for the statistical checks
		c.N = r.Range(6, 16)
		c.R = r.Range(1, 4)
		c.P = r.Range(24, 64)
		c.D = r.Range(8, 14)
	}
	if r.Bool(0.4) && c.N >= 2 {
		for d := 0; d < c.D; d++ {
			m := r.Range(1, c.N)
			if r.Bool(0.3) {
				m = -m
			}
			c.Churn = append(c.Churn, m)
		}
	}
	b, _ := json.Marshal(c)
	return b
}

func log2Binom(n, k int) float64 {
	if k > n {
		k = n
	}
	v := 0.0
	for i := 0; i < k; i++ {
		v += math.Log2(float64(n-i)) - math.Log2(float64(i+1))
	}
	return v
}

func execC16(raw json.RawMessage, wantLog bool) (out Outcome) {
	var c PlaceCase
	if err := json.Unmarshal(raw, &c); err != nil {
		out.Harness = err.Error()
		return
	}
	simrt.SetMode(simrt.ModePlain)
	var h uint64
	var logl []string
	logf := func(f string, a ...interface{}) {
		s := fmt.Sprintf(f, a...)
		h = simrt.HashBytes(h, []byte(s))
		if wantLog {
			logl = append(logl, s)
		}
	}
	dir := scratchRunDir()
	defer os.RemoveAll(dir)
	func() {
		defer func() {
			if r := recover(); r != nil {
				out.Harness = fmt.Sprintf("bubble panic: %v\n%s", r, debug.Stack())
			}
		}()
		synctest.Test(theT, func(t *testing_T) {
			simrt.SetMode(simrt.ModeBubble)
			defer simrt.SetMode(simrt.ModePlain)
			seedRuntime(c.Seed)
			db, err := openBadger(dir)
			if err != nil {
				out.Harness = "badger: " + err.Error()
				return
			}
			defer db.Close()
			synctest.Wait()
			seedRuntime(c.Seed) // after Badger's start-up goroutines have drawn their random delays
			conn, err := cluster.NewConn(999999, "self:0", "")
			if err != nil {
				out.Harness = err.Error()
				return
			}
			members := map[uint64]bool{}
			for i := 1; i <= c.N; i++ {
				conn.AddNode(uint64(i), fmt.Sprintf("node%d:6000", i))
				members[uint64(i)] = true
			}
			alloc := storage.NewAllocator(conn)
			defer alloc.Stop()
			g := &scriptedGroup{}
			dm, err := storage.NewDatasetManager(g, db, nil, conn, alloc)
			if err != nil {
				out.Harness = err.Error()
				return
			}
			share := map[uint64]int{}
			churned := false
			totalParts := 0
			allSame := true
			var firstSet string
			for d := 0; d < c.D; d++ {
				type res struct {
					ds  *storage.Dataset
					err error
				}
				rc := make(chan res, 1)
				go func() {
					ds, err := dm.Create(context.Background(), &pb.Dataset{Dimension: 2, Space: pb.Space_Euclidean, PartitionCount: uint32(c.P), ReplicationFactor: uint32(c.R)})
					rc <- res{ds, err}
				}()
				synctest.Wait()
				for data := g.take(); data != nil; data = g.take() {
					if err := g.processFn(data); err != nil {
						out.Violate("C16", "catalogue-apply-error", "apply of the create proposal failed: %v", err)
					}
					synctest.Wait()
				}
				var r res
				select {
				case r = <-rc:
				default:
					time.Sleep(2 * time.Second)
					synctest.Wait()
					r = <-rc
				}
				if r.err != nil {
					out.Violate("C16", "create-failed", "Create(N=%d R=%d P=%d) failed: %v", c.N, c.R, c.P, r.err)
					return
				}
				want := c.R
				if len(members) < want {
					want = len(members)
				}
				parts := r.ds.Meta().GetPartitions()
				if len(parts) != c.P {
					out.Violate("C16", "partition-count", "asked for %d partitions, got %d", c.P, len(parts))
				}
				sets := map[string]int{}
				for pi, p := range parts {
					ids := append([]uint64(nil), p.GetNodeIds()...)
					sort.Slice(ids, func(i, j int) bool { return ids[i] < ids[j] })
					key := fmt.Sprint(ids)
					sets[key]++
					if firstSet == "" {
						firstSet = key
					} else if key != firstSet {
						allSame = false
					}
					totalParts++
					logf("d%d p%d -> %v", d, pi, ids)
					if len(ids) != want {
						out.Violate("C16", "replica-count", "N=%d R=%d: partition %d placed on %d nodes, want min(R,N)=%d", c.N, c.R, pi, len(ids), want)
					}
					for i, id := range ids {
						if i > 0 && ids[i-1] == id {
							out.Violate("C16", "duplicate-node", "partition %d placed twice on node %d", pi, id)
						}
						if !members[id] {
							out.Violate("C16", "non-member", "partition %d placed on %d which is not a member", pi, id)
						}
						share[id]++
					}
				}
				// independence within one dataset: identical node sets on all partitions
				bits := float64(len(parts)-1) * log2Binom(len(members), want)
				if len(sets) == 1 && bits >= 60 {
					out.Violate("C16", "all-partitions-on-the-same-nodes", "N=%d R=%d P=%d: every partition of the dataset got the node set %s (chance under independent placement < 2^-%.0f)", c.N, c.R, c.P, firstSet, bits)
				}
				if bits >= 60 {
					out.Stat("datasets_checked_for_independence", 1)
				}
				// membership churn between creates
				if d < len(c.Churn) {
					m := c.Churn[d]
					if m > 0 && members[uint64(m)] && len(members) > 1 {
						conn.RemoveNode(uint64(m))
						delete(members, uint64(m))
						churned = true
						out.Stat("member_left_between_creates", 1)
					} else if m < 0 && !members[uint64(-m)] {
						conn.AddNode(uint64(-m), fmt.Sprintf("node%d:6000", -m))
						members[uint64(-m)] = true
						churned = true
						out.Stat("member_joined_between_creates", 1)
					}
					synctest.Wait()
				}
			}
			want := c.R
			if len(members) < want {
				want = len(members)
			}
			// spread over the whole run
			if !churned && want < c.N && want > 0 {
				pUnused := float64(totalParts) * -math.Log2(1-float64(want)/float64(c.N))
				if pUnused >= 60+math.Log2(float64(c.N)) {
					out.Stat("runs_checked_for_member_use", 1)
					for id := range members {
						if share[id] == 0 {
							out.Violate("C16", "member-never-used", "N=%d R=%d: member %d received none of %d partition placements", c.N, c.R, id, totalParts)
							break
						}
					}
				}
				mu := float64(totalParts) * float64(want) / float64(c.N)
				if mu >= 400 {
					out.Stat("runs_checked_for_member_share", 1)
					ids := make([]uint64, 0, len(members))
					for id := range members {
						ids = append(ids, id)
					}
					sort.Slice(ids, func(i, j int) bool { return ids[i] < ids[j] })
					for _, id := range ids {
						if x := float64(share[id]); x < mu/2 || x > 2*mu {
							out.Violate("C16", "member-share-off", "N=%d R=%d: member %d holds %d of %d placements, expectation %.0f (outside [1/2,2]x; Chernoff bound < 1e-20)", c.N, c.R, id, share[id], totalParts, mu)
							break
						}
					}
				}
			}
			_ = allSame
			out.Stat("datasets_created", int64(c.D))
			out.Stat("partitions_placed", int64(totalParts))
		})
	}()
	out.TraceHash = h
	out.Log = logl
	out.Nontrivial = c.N >= 2 && c.P >= 2
	return
}

func shrinkC16(raw json.RawMessage) []json.RawMessage {
	var c PlaceCase
	if json.Unmarshal(raw, &c) != nil {
		return nil
	}
	var out []json.RawMessage
	emit := func(n PlaceCase) {
		b, _ := json.Marshal(n)
		out = append(out, b)
	}
	if c.D > 1 {
		n := c
		n.D = 1
		emit(n)
		n = c
		n.D = c.D / 2
		emit(n)
	}
	if c.P > 1 {
		n := c
		n.P = c.P / 2
		emit(n)
		n = c
		n.P = c.P - 1
		emit(n)
	}
	if c.N > 1 {
		n := c
		n.N = c.N - 1
		emit(n)
	}
	if c.R > 1 {
		n := c
		n.R = c.R - 1
		emit(n)
	}
	return out
}

func init() {
	Register(&Check{
		ID:    "C16",
		Level: "exploration",
		Rule: "case = N members (1..16), replication factor R (1..8), P partitions (1..64), D datasets created through DatasetManager.Create over a scripted raft.Group, seed of the shuffle and of map iteration; " +
			"non-trivial = N >= 2 and P >= 2; distinct = hash of all placements; independence is asserted only where identical placement of all partitions has probability < 2^-60 under independent uniform placement, member shares only where a Chernoff bound puts a false alarm below 1e-20",
		Assumptions: []string{"the local node is not a member, so no partition raft group is started (World III covers that)", "math/rand and map iteration order are seeded by the harness (runtime overlay)"},
		Real:        []string{"storage.DatasetManager.Create / createDataset", "storage.Allocator.getPartitionsNodeIds", "cluster.Conn", "protobuf codecs", "Badger (partition log stores are created)"},
		Stub:        []string{"raft.Group (scripted: queued proposals applied by the harness)"},
		Probes:      []string{"datasets_checked_for_independence", "runs_checked_for_member_use", "runs_checked_for_member_share", "member_left_between_creates", "member_joined_between_creates"},
		Budget: func(tier string) (int, time.Duration) {
			if tier == "thorough" {
				return 40000, 40 * time.Minute
			}
			return 1500, 4 * time.Minute
		},
		Gen:    genC16,
		Exec:   withSample(genC16, execC16),
		Shrink: shrinkC16,
	})
}
