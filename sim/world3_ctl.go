package anndbverif

// Control-plane checks on World III: C14 (catalogue replicated consistently
// and survives restart), C18 (membership changes and restarts never wedge the
// control plane), C20 (membership view converges and survives restart).

import (
	"context"
	"encoding/json"
	"fmt"
	"os"
	"runtime/debug"
	"sort"
	"strings"
	"time"

	pb "github.com/marekgalovic/anndb/protobuf"
	uuid "github.com/satori/go.uuid"

	"simrt"
)

type CtlCase struct {
	W3 W3Case `json:"w3"`
}

// control-plane operations use W3Op with K in: create delete join removenode
// crash restart crashall wait part isolate heal settle

func genCtl(r *simrt.Rand, tier string, flavor string) json.RawMessage {
	c := W3Case{Nodes: r.Range(1, 3), Dim: 2, Space: 0, NoDataset: true}
	c.Cfg = W3Cfg{Seed: r.Uint64(), Net: NetCfg{MinLatMs: 1, JitterMs: r.Range(0, 15)}, SnapshotOffset: []int64{2, 3, 5000}[r.Intn(3)], YieldP: []int{0, 10, 40}[r.Intn(3)]}
	if r.Bool(0.4) {
		c.Faults = true
		c.Cfg.Net = genNet(r)
	}
	if flavor == "C18" && r.Bool(0.25) {
		return genCtlReplayBurst(r, c)
	}
	if flavor == "C14" && r.Bool(0.2) {
		return genCtlReplicaChangeBetweenSnapshots(r, c)
	}
	if flavor == "C14" && r.Bool(0.15) {
		return genCtlDeletionCoveredBySnapshot(r, c)
	}
	if flavor == "C14" && r.Bool(0.12) {
		return genCtlReplicaMovedAwayForGood(r, c)
	}
	if (flavor == "C20" || flavor == "C18") && r.Bool(0.15) {
		return genCtlRemoveLeader(r, c)
	}
	if flavor == "C20" && r.Bool(0.12) {
		return genCtlRejoinThroughLaggingMember(r, c)
	}
	if (flavor == "C20" || flavor == "C18") && r.Bool(0.12) {
		return genCtlSelfRemovalDuringAnotherChange(r, c)
	}
	if (flavor == "C20" || flavor == "C18") && r.Bool(0.06) {
		return genCtlLongMembershipHistory(r, c)
	}
	slot := 0
	nodes := c.Nodes
	maxNodes := 5
	var live []int // dataset slots believed present
	nOps := r.Range(3, 9)
	if flavor == "C18" {
		nOps = r.Range(5, 12)
	}
	for i := 0; i < nOps; i++ {
		x := r.Intn(100)
		switch {
		case x < 30:
			slot++
			c.Ops = append(c.Ops, W3Op{K: "create", Node: r.Range(1, nodes), DS: slot, P: r.Range(1, 4), R: r.Range(1, 3), Async: flavor == "C18" && r.Bool(0.5)})
			live = append(live, slot)
		case x < 42 && len(live) > 0:
			k := r.Intn(len(live))
			c.Ops = append(c.Ops, W3Op{K: "delete", Node: r.Range(1, nodes), DS: live[k], Async: flavor == "C18" && r.Bool(0.5)})
			live = append(live[:k], live[k+1:]...)
		case x < 55 && nodes < maxNodes:
			nodes++
			c.Ops = append(c.Ops, W3Op{K: "join", Node: nodes, Async: flavor == "C18" && r.Bool(0.5)})
		case x < 62 && nodes > 1:
			t := r.Range(2, nodes)
			c.Ops = append(c.Ops, W3Op{K: "removenode", Node: r.Range(1, nodes), A: t})
			if r.Bool(0.4) { // the machine comes back later and joins again (same id and address)
				c.Ops = append(c.Ops, W3Op{K: "wait", Ms: r.Range(100, 4000)}, W3Op{K: "rejoin", Node: t, A: r.Range(1, nodes), P: newAddr(r, flavor)})
			}
		case x < 72:
			n := r.Range(1, nodes)
			c.Ops = append(c.Ops, W3Op{K: "crash", Node: n}, W3Op{K: "wait", Ms: r.Range(100, 3000)}, W3Op{K: "restart", Node: n})
		case x < 78:
			c.Ops = append(c.Ops, W3Op{K: "crash", Node: r.Range(1, nodes)})
		case x < 84:
			if r.Bool(0.5) {
				c.Ops = append(c.Ops, W3Op{K: "svcread", Node: r.Range(1, nodes), A: r.Intn(2)})
			}
			c.Ops = append(c.Ops, W3Op{K: "wait", Ms: r.Range(10200, 12000)}) // snapshot ticker
		case x < 88 && nodes > 1:
			c.Ops = append(c.Ops, W3Op{K: "isolate", Node: r.Range(2, nodes)})
		case x < 92:
			c.Ops = append(c.Ops, W3Op{K: "heal"})
		case x < 96:
			c.Ops = append(c.Ops, W3Op{K: "crashall"}, W3Op{K: "wait", Ms: 300})
			for j := 1; j <= nodes; j++ {
				c.Ops = append(c.Ops, W3Op{K: "restart", Node: j})
			}
		default:
			c.Ops = append(c.Ops, W3Op{K: "wait", Ms: r.Range(200, 2000)})
		}
	}
	b, _ := json.Marshal(CtlCase{W3: c})
	return b
}

// genCtlReplayBurst: the burst a restart replays. One node creates datasets whose
// replication factor exceeds the cluster (every later join makes the allocator propose
// replica changes), five or more membership changes follow, then further catalogue
// changes, then the primary (or everyone) restarts and replays all of it at once.
// genCtlReplicaMovedAwayForGood: a node that hosts replicas is removed from the cluster,
// its replicas are given to a spare node, and it joins again (same id, old disk) without
// getting them back; when it restarts it replays "create (with me as a host) ... remove me
// from the partition" back to back, while its allocator may still be busy loading.
func genCtlReplicaMovedAwayForGood(r *simrt.Rand, c W3Case) json.RawMessage {
	c.Nodes = 3
	c.Faults = false
	c.Cfg.Net = NetCfg{MinLatMs: 1, JitterMs: r.Range(0, 10)}
	c.Cfg.SnapshotOffset = 5000
	c.Cfg.Deep, c.Cfg.Burst = []int{40, 160, 400}[r.Intn(3)], []int{0, 20, 50}[r.Intn(3)]
	for i, n := 1, r.Range(1, 2); i <= n; i++ {
		c.Ops = append(c.Ops, W3Op{K: "create", Node: r.Range(1, 3), DS: i, P: r.Range(1, 3), R: r.Range(2, 3)})
	}
	c.Ops = append(c.Ops, W3Op{K: "join", Node: 4}, W3Op{K: "wait", Ms: r.Range(1500, 3000)})
	x := r.Range(2, 3)
	c.Ops = append(c.Ops, W3Op{K: "removenode", Node: 1, A: x}, W3Op{K: "wait", Ms: r.Range(3000, 7000)},
		W3Op{K: "rejoin", Node: x, A: []int{1, 4}[r.Intn(2)]}, W3Op{K: "wait", Ms: r.Range(1500, 4000)},
		W3Op{K: "crash", Node: x}, W3Op{K: "wait", Ms: r.Range(100, 2000)}, W3Op{K: "restart", Node: x})
	b, _ := json.Marshal(CtlCase{W3: c})
	return b
}

func genCtlReplayBurst(r *simrt.Rand, c W3Case) json.RawMessage {
	c.Nodes = 1
	c.Cfg.SnapshotOffset = []int64{5000, 5000, 3}[r.Intn(3)]
	slot := 0
	for i, n := 0, r.Range(1, 2); i < n; i++ {
		slot++
		c.Ops = append(c.Ops, W3Op{K: "create", Node: 1, DS: slot, P: r.Range(1, 3), R: r.Range(4, 10)})
	}
	nodes := 1
	for j, n := 0, r.Range(4, 6); j < n; j++ {
		nodes++
		c.Ops = append(c.Ops, W3Op{K: "join", Node: nodes, Async: r.Bool(0.3)})
	}
	if r.Bool(0.5) {
		c.Ops = append(c.Ops, W3Op{K: "removenode", Node: 1, A: r.Range(2, nodes)})
	}
	for i, n := 0, r.Range(1, 4); i < n; i++ {
		if slot > 1 && r.Bool(0.25) {
			c.Ops = append(c.Ops, W3Op{K: "delete", Node: r.Range(1, nodes), DS: r.Range(1, slot), Async: r.Bool(0.3)})
		} else {
			slot++
			c.Ops = append(c.Ops, W3Op{K: "create", Node: r.Range(1, nodes), DS: slot, P: r.Range(1, 3), R: r.Range(1, 10), Async: r.Bool(0.3)})
		}
	}
	if r.Bool(0.7) {
		c.Ops = append(c.Ops, W3Op{K: "crash", Node: 1}, W3Op{K: "wait", Ms: r.Range(100, 3000)}, W3Op{K: "restart", Node: 1})
	} else {
		c.Ops = append(c.Ops, W3Op{K: "crashall"}, W3Op{K: "wait", Ms: 300})
		for j := 1; j <= nodes; j++ {
			c.Ops = append(c.Ops, W3Op{K: "restart", Node: j})
		}
	}
	if r.Bool(0.5) {
		slot++
		c.Ops = append(c.Ops, W3Op{K: "create", Node: r.Range(1, nodes), DS: slot, P: r.Range(1, 3), R: r.Range(1, 3), Async: r.Bool(0.5)})
	}
	b, _ := json.Marshal(CtlCase{W3: c})
	return b
}

// genCtlReplicaChangeBetweenSnapshots: the catalogue is cut into a snapshot, then only
// replica sets change (members join under-replicated datasets or are removed; no dataset
// comes or goes), then the next snapshot is cut and members restart from it.
func genCtlReplicaChangeBetweenSnapshots(r *simrt.Rand, c W3Case) json.RawMessage {
	c.Nodes = r.Range(1, 2)
	c.Cfg.SnapshotOffset = int64(r.Range(1, 3))
	nodes, slot := c.Nodes, 0
	for i, n := 0, r.Range(1, 3); i < n; i++ {
		slot++
		c.Ops = append(c.Ops, W3Op{K: "create", Node: r.Range(1, nodes), DS: slot, P: r.Range(1, 3), R: r.Range(nodes+1, 4)})
	}
	snap := W3Op{K: "wait", Ms: r.Range(10200, 12000)}
	c.Ops = append(c.Ops, snap)
	for i, n := 0, r.Range(1, 2); i < n; i++ {
		if nodes > 2 && r.Bool(0.3) {
			c.Ops = append(c.Ops, W3Op{K: "removenode", Node: 1, A: r.Range(2, nodes)})
		} else {
			nodes++
			c.Ops = append(c.Ops, W3Op{K: "join", Node: nodes})
		}
		c.Ops = append(c.Ops, W3Op{K: "wait", Ms: r.Range(500, 3000)})
	}
	if r.Bool(0.3) { // an unknown id: an entry that changes nothing
		c.Ops = append(c.Ops, W3Op{K: "delete", Node: 1, DS: 99})
	}
	c.Ops = append(c.Ops, snap)
	switch r.Intn(3) {
	case 0:
		n := r.Range(1, nodes)
		c.Ops = append(c.Ops, W3Op{K: "crash", Node: n}, W3Op{K: "wait", Ms: r.Range(100, 3000)}, W3Op{K: "restart", Node: n})
	case 1:
		c.Ops = append(c.Ops, W3Op{K: "crashall"}, W3Op{K: "wait", Ms: 300})
		for j := 1; j <= nodes; j++ {
			c.Ops = append(c.Ops, W3Op{K: "restart", Node: j})
		}
	default: // the final phase of the scenario restarts everyone
	}
	b, _ := json.Marshal(CtlCase{W3: c})
	return b
}

// genCtlRemoveLeader: the first node is cut off until another member leads, then members
// other than the first are removed one after the other (one of them is likely the
// leader) and the cluster has to keep working: a node joins, datasets are created.
func genCtlRemoveLeader(r *simrt.Rand, c W3Case) json.RawMessage {
	c.Nodes = r.Range(3, 5)
	c.Faults = false
	c.Ops = append(c.Ops, W3Op{K: "isolate", Node: 1}, W3Op{K: "wait", Ms: r.Range(6000, 12000)}, W3Op{K: "heal"}, W3Op{K: "wait", Ms: r.Range(2000, 5000)})
	nodes := c.Nodes
	for _, t := range r.Perm(nodes - 1)[:r.Range(1, nodes-2)] {
		c.Ops = append(c.Ops, W3Op{K: "removenode", Node: 1, A: t + 2})
	}
	nodes++
	c.Ops = append(c.Ops, W3Op{K: "join", Node: nodes})
	c.Ops = append(c.Ops, W3Op{K: "create", Node: 1, DS: 1, P: r.Range(1, 2), R: r.Range(1, 2)})
	b, _ := json.Marshal(CtlCase{W3: c})
	return b
}

// genCtlSelfRemovalDuringAnotherChange: a member is asked to remove itself (the operator
// sends remove-node to the node that is to leave) while another membership change - a
// node joining through the first member - is on its way through the log. Raft drops a
// membership change proposed while another one is pending, so whether the removal is in
// the log is only known once this very change has been applied: an acknowledged removal
// must be one that every member applies.
func genCtlSelfRemovalDuringAnotherChange(r *simrt.Rand, c W3Case) json.RawMessage {
	// (four or five members: the operator only removes a node while the others are a
	// majority even if the joining node is counted as a member already)
	c.Nodes = r.Range(4, 5)
	c.Faults = false
	c.Cfg.Net = NetCfg{MinLatMs: r.Range(1, 8), JitterMs: r.Range(0, 10)}
	x := r.Range(2, c.Nodes)
	// (the operator lets a node's own join handshake settle for 20 s before removing it)
	c.Ops = append(c.Ops, W3Op{K: "wait", Ms: r.Range(21000, 24000)},
		W3Op{K: "join", Node: c.Nodes + 1, Async: true}, W3Op{K: "wait", Ms: r.Range(0, 150)},
		W3Op{K: "removenode", Node: x, A: x},
		W3Op{K: "wait", Ms: r.Range(2000, 6000)},
		W3Op{K: "create", Node: 1, DS: 1, P: r.Range(1, 2), R: r.Range(1, 2)})
	b, _ := json.Marshal(CtlCase{W3: c})
	return b
}

// genCtlLongMembershipHistory: a dataset is created and deleted, another one stays; four
// nodes join and then members are removed, taken out of service and brought back, one
// after the other, many times: far more membership changes than any fixed-size queue
// between the membership log and its subscribers can hold. Whatever a deleted dataset
// (or anything else) left subscribed must not stop the membership log from being applied.
func genCtlLongMembershipHistory(r *simrt.Rand, c W3Case) json.RawMessage {
	c.Nodes = 1
	c.Faults = false
	c.Cfg.Net = NetCfg{MinLatMs: 1, JitterMs: r.Range(0, 4)}
	c.Ops = append(c.Ops, W3Op{K: "create", Node: 1, DS: 1, P: r.Range(1, 2), R: 1},
		W3Op{K: "delete", Node: 1, DS: 1},
		W3Op{K: "create", Node: 1, DS: 2, P: r.Range(1, 2), R: r.Range(1, 2)})
	for n := 2; n <= 5; n++ {
		c.Ops = append(c.Ops, W3Op{K: "join", Node: n})
	}
	for i, k := 0, r.Range(6, 9); i < k; i++ {
		t := 2 + (i+r.Intn(2))%4
		// (B: 1 - the removed node is taken out of service for sure, so that it can come back)
		c.Ops = append(c.Ops, W3Op{K: "removenode", Node: 1, A: t, B: 1}, W3Op{K: "wait", Ms: r.Range(100, 1500)},
			W3Op{K: "rejoin", Node: t, A: 1})
	}
	b, _ := json.Marshal(CtlCase{W3: c})
	return b
}

// newAddr decides whether a removed node comes back under a new address (1) or its old
// one (0). The product has no notion of a node changing its address: the address book
// is not versioned, so a member that holds an older authoritative address (from its own
// log or from a snapshot cut before the change) and needs the node to make progress
// cannot reach it. This is recorded as an open finding of C20; runs in which it can
// play a part are rare and their violations carry the prefix "after-address-change/".
func newAddr(r *simrt.Rand, flavor string) int {
	if flavor == "C20" && r.Bool(0.15) {
		return 1
	}
	return 0
}

// joinList: the addresses a starting node is given (cmd/anndb --join a,b,c): the member
// it should ask first, then every other node in order.
func joinList(self, first, n int) []int {
	var out []int
	if first >= 1 && first <= n && first != self {
		out = append(out, first)
	}
	for j := 1; j <= n; j++ {
		if j != self && j != first {
			out = append(out, j)
		}
	}
	return out
}

// genCtlRejoinThroughLaggingMember: a member is cut off, another node is removed through
// a third one (the cut-off member cannot apply the removal), the removed node is taken
// out of service; then the network heals and the removed node at once announces itself
// again, to the member that has not caught up yet.
func genCtlRejoinThroughLaggingMember(r *simrt.Rand, c W3Case) json.RawMessage {
	c.Nodes = r.Range(4, 5)
	c.Faults = false
	c.Cfg.Net = NetCfg{MinLatMs: 1, JitterMs: r.Range(0, 10)}
	perm := r.Perm(c.Nodes)
	var x, m1, m2 int
	for _, v := range perm {
		if v+1 >= 2 && x == 0 {
			x = v + 1
		}
	}
	for _, v := range perm {
		if v+1 != x && m1 == 0 {
			m1 = v + 1
		} else if v+1 != x && v+1 != m1 && m2 == 0 {
			m2 = v + 1
		}
	}
	if r.Bool(0.5) {
		c.Ops = append(c.Ops, W3Op{K: "create", Node: 1, DS: 1, P: r.Range(1, 2), R: r.Range(1, 3)})
	}
	c.Ops = append(c.Ops,
		W3Op{K: "wait", Ms: r.Range(20000, 22000)}, // the handshakes of the initial members settle
		W3Op{K: "isolate", Node: m2}, W3Op{K: "wait", Ms: r.Range(300, 2500)},
		W3Op{K: "removenode", Node: m1, A: x})
	if r.Bool(0.5) {
		c.Ops = append(c.Ops, W3Op{K: "heal"}, W3Op{K: "rejoin", Node: x, A: m2})
	} else {
		// the node comes back (under a new address) while the member is still cut off; the
		// member misses both changes and is later caught up, possibly by a snapshot
		c.Cfg.SnapshotOffset = int64(r.Range(1, 3))
		c.Ops = append(c.Ops, W3Op{K: "rejoin", Node: x, A: m1, P: newAddr(r, "C20")}, W3Op{K: "wait", Ms: r.Range(10500, 13000)}, W3Op{K: "heal"})
	}
	if r.Bool(0.5) {
		c.Ops = append(c.Ops, W3Op{K: "wait", Ms: r.Range(500, 3000)}, W3Op{K: "crash", Node: m2}, W3Op{K: "restart", Node: m2})
	}
	b, _ := json.Marshal(CtlCase{W3: c})
	return b
}

// genCtlDeletionCoveredBySnapshot: a member is cut off while datasets are deleted (all of
// them in half of the cases, so that the catalogue is empty), the zero group compacts the
// deletions into a snapshot, then the member comes back and is caught up by it.
func genCtlDeletionCoveredBySnapshot(r *simrt.Rand, c W3Case) json.RawMessage {
	c.Nodes = r.Range(2, 3)
	c.Faults = false
	c.Cfg.Net = NetCfg{MinLatMs: 1, JitterMs: r.Range(0, 10)}
	c.Cfg.SnapshotOffset = int64(r.Range(1, 3))
	n := r.Range(1, 3)
	for i := 1; i <= n; i++ {
		c.Ops = append(c.Ops, W3Op{K: "create", Node: r.Range(1, c.Nodes), DS: i, P: r.Range(1, 2), R: r.Range(1, 2)})
	}
	m := r.Range(2, c.Nodes)
	if c.Nodes == 3 && r.Bool(0.3) {
		m = 1
	}
	c.Ops = append(c.Ops, W3Op{K: "wait", Ms: r.Range(500, 3000)}, W3Op{K: "isolate", Node: m})
	via := 1
	if m == 1 {
		via = 2
		c.Ops = append(c.Ops, W3Op{K: "wait", Ms: r.Range(4000, 6000)}) // the others elect a leader
	}
	keep := 0
	if n > 1 && r.Bool(0.5) {
		keep = r.Range(1, n)
	}
	for i := 1; i <= n; i++ {
		if i != keep {
			c.Ops = append(c.Ops, W3Op{K: "delete", Node: via, DS: i})
		}
	}
	c.Ops = append(c.Ops, W3Op{K: "wait", Ms: r.Range(10500, 13000)}, W3Op{K: "heal"})
	if r.Bool(0.3) {
		c.Ops = append(c.Ops, W3Op{K: "wait", Ms: r.Range(1000, 4000)}, W3Op{K: "crash", Node: m}, W3Op{K: "restart", Node: m})
	}
	b, _ := json.Marshal(CtlCase{W3: c})
	return b
}

type ctlState struct {
	removed        map[int]bool // node index -> removal acknowledged (node stopped for good)
	joinAcked      map[int]bool // node index -> its join handshake completed at least once
	joinTried      map[int]bool
	dsAck          map[int]string // slot -> present | absent | unknown
	removalUnknown map[int]bool
	addrChanged    bool         // some node came back under a new address (known finding: see newAddr)
	rejoined       map[int]bool // node index -> removed once and announced itself again (listed only once that join is acknowledged)
}

// execCtlOps runs the control-plane steps (the data-plane engine ignores them).
func (r *W3Run) execCtlOps(st *ctlState) {
	s := r.s
	for i, op := range r.c.Ops {
		switch op.K {
		case "create":
			if op.Node < 1 || op.Node > len(s.nodes) || st.removed[op.Node] {
				continue
			}
			h := r.createDataset(op.DS, s.nodes[op.Node-1], op.P, op.R, 2+op.DS, op.DS%3, !op.Async) // all three metrics
			h.idx = i
			st.dsAck[op.DS] = "unknown"
			s.out.Stat("catalogue_creates", 1)
			if op.Async {
				s.runFor(time.Duration(5+i%40) * time.Millisecond)
			}
		case "delete":
			if op.Node < 1 || op.Node > len(s.nodes) || st.removed[op.Node] {
				continue
			}
			info := r.ds[op.DS]
			if info == nil || !info.ackedCreate {
				continue
			}
			n := s.nodes[op.Node-1]
			id := info.id
			h := &histOp{op: op, idx: i}
			r.hist = append(r.hist, h)
			h.cop = s.client(n, fmt.Sprintf("delete-dataset#%d", op.DS), 5*time.Second, func(ctx context.Context, n *simNode) (interface{}, error) {
				return n.svcDM.Delete(ctx, &pb.UUIDRequest{Id: id.Bytes()})
			})
			s.out.Stat("catalogue_deletes", 1)
			if !op.Async {
				s.runUntil(func() bool { return h.cop.done }, 10*time.Second)
			} else {
				s.runFor(time.Duration(5+i%40) * time.Millisecond)
			}
		case "join":
			if op.Node != len(s.nodes)+1 {
				continue
			}
			n := s.addNode(joinList(len(s.nodes)+1, 1, len(s.nodes)))
			st.joinTried[n.idx] = true
			if err := s.startNode(n); err != nil {
				r.viol("node-start-failed/"+restartClass(err), "new node n%d could not start: %v", n.idx, err)
				return
			}
			s.out.Stat("membership_joins", 1)
			if !op.Async {
				s.runUntil(func() bool { return n.joined || !n.alive }, 30*time.Second)
			} else {
				s.runFor(20 * time.Millisecond)
			}
		case "rejoin":
			// a removed node (taken out of service) is brought back: same id, same address,
			// its old disk (B=0) or an empty one (B=1); it announces itself to member A first
			if op.Node < 2 || op.Node > len(s.nodes) || !st.removed[op.Node] {
				continue
			}
			n := s.nodes[op.Node-1]
			if n.alive || !n.retired || n.limbo {
				continue
			}
			n.retired = false
			st.removed[op.Node] = false
			st.rejoined[op.Node] = true
			// (A blank disk under the old id is not exercised any more: the node would have
			// forgotten the vote it cast and the entries it acknowledged in the cluster's
			// own group, which raft's safety argument - and every raft implementation -
			// rules out. The thorough tier duly found two leaders in one term. A machine
			// that lost its disk has to come back under a new id, which is an ordinary join.)
			blank := false
			if blank {
				// A blank disk is only legitimate for a node that no raft group can still
				// count as a member: the removal was acknowledged for the cluster's own
				// group, the partition groups follow later (or never). The operator only
				// wipes the machine while the catalogue is empty.
				for _, m := range s.nodes {
					if m.alive && m.parts != nil {
						if ds, ok := m.parts.DatasetManager.VerifDatasets(); !ok || len(ds) > 0 {
							blank = false
						}
					}
				}
			}
			if blank {
				os.RemoveAll(n.dir)
				os.MkdirAll(n.dir, 0755)
				if r.mon != nil {
					r.mon.forgetDisk(n)
				}
			}
			if op.P == 1 {
				// the machine comes back under a new address (same id)
				delete(s.byAddr, n.addr)
				n.port = fmt.Sprintf("%d", 18000+n.idx+10*n.inc)
				n.addr = ":" + n.port
				s.byAddr[n.addr] = n
				s.out.Stat("membership_rejoins_with_a_new_address", 1)
				st.addrChanged = true
			}
			n.join = nil
			for _, j := range joinList(n.idx, op.A, len(s.nodes)) {
				n.join = append(n.join, s.nodes[j-1].addr)
			}
			if err := s.startNode(n); err != nil {
				r.viol("node-start-failed/"+restartClass(err), "removed node n%d could not start again: %v", n.idx, err)
				return
			}
			s.out.Stat("membership_rejoins_of_removed_nodes", 1)
			s.runUntil(func() bool { return n.joined || !n.alive }, 30*time.Second)
		case "removenode":
			if op.A < 2 || op.A > len(s.nodes) || st.removed[op.A] {
				continue
			}
			via := s.nodes[0]
			if op.Node >= 1 && op.Node <= len(s.nodes) {
				// (op.Node == op.A: the request is sent to the very node that is to leave)
				if v := s.nodes[op.Node-1]; v.alive && v.joined && !v.limbo && !v.retired {
					via = v
					if op.Node == op.A {
						s.out.Stat("membership_self_removals", 1)
					}
				}
			}
			if !via.alive || !via.joined || via.limbo || via.retired {
				continue
			}
			// an operator can only remove a node while the remaining members form a majority
			// of the current membership (otherwise raft cannot commit the change at all)
			members, up := 0, 0
			for _, n := range s.nodes {
				if n.retired {
					continue
				}
				members++
				if n.alive && n.joined && n.idx != op.A {
					up++
				}
			}
			if up < members/2+1 {
				s.out.Stat("removals_skipped_no_quorum", 1)
				continue
			}
			target := s.nodes[op.A-1]
			// A removal that overlaps a join handshake of the same node has no determinate
			// outcome: the member that handles the join may propose it before or after the
			// removal (a request of a crashed incarnation can still arrive late, a proposal
			// reported as "not applied in time" can still be applied). The operator first
			// lets a recent handshake settle; if the node keeps trying to join, nothing is
			// asserted about it afterwards.
			const joinSettle = 20 * time.Second
			if target.joinAct >= 0 && s.now()-target.joinAct < joinSettle {
				s.runFor(joinSettle - (s.now() - target.joinAct))
			}
			overlap := target.joinAct >= 0 && s.now()-target.joinAct < joinSettle
			if target.alive && !target.joined {
				overlap = true // its handshake is still in flight (an answer was lost, it waits)
			}
			invoked := s.now()
			var h *histOp
			// the operator repeats the request until it is acknowledged
			for attempt := 0; attempt < 6; attempt++ {
				h = &histOp{op: op, idx: i}
				r.hist = append(r.hist, h)
				h.cop = s.client(via, fmt.Sprintf("remove-node n%d", target.idx), 8*time.Second, func(ctx context.Context, n *simNode) (interface{}, error) {
					return n.svcNM.RemoveNode(ctx, &pb.Node{Id: target.id})
				})
				s.runUntil(func() bool { return h.cop.done }, 12*time.Second)
				h.done, h.err = h.cop.done, h.cop.err
				if h.done && h.err == nil {
					break
				}
				s.runFor(3 * time.Second)
			}
			s.out.Stat("membership_removals", 1)
			if target.joinAct >= invoked {
				overlap = true
			}
			if overlap {
				s.out.Stat("membership_removals_overlapping_a_join", 1)
			}
			if h.done && h.err == nil && !overlap {
				// acknowledged: the operator lets the cluster move the node's partitions
				// (their groups need the node's vote to shrink) and then takes it out of service
				s.runFor(15 * time.Second)
				if target.joinAct >= invoked {
					overlap = true // a handshake of the node returned meanwhile
				}
			}
			if h.done && h.err == nil && !overlap {
				st.removed[op.A] = true
				if target.alive && (op.B == 2 || (op.B == 0 && (r.c.Cfg.Seed>>(uint(i)%32))&1 == 1)) {
					// (B: 1 - always taken out of service, 2 - always left running, 0 - either)
					// ... or forgets to: the removed node's process keeps running (it is never
					// restarted and nothing is asserted about it); the remaining members must
					// not depend on it going away, in particular not when it was the leader
					target.limbo = true
					s.out.Stat("membership_removed_node_left_running", 1)
				} else if target.alive {
					s.pump()
					s.stopNode(target, false)
				}
				target.retired = true
				s.out.Stat("membership_removals_acknowledged", 1)
			} else {
				// never acknowledged: the node stays in service (it may still be a voter) but
				// nothing is asserted about it any more
				st.removalUnknown[op.A] = true
				target.limbo = true
			}
		}
	}
}

// catalogueOf returns a canonical description of a node's catalogue.
func (r *W3Run) catalogueOf(n *simNode) (map[uuid.UUID]string, bool) {
	ds, ok := n.parts.DatasetManager.VerifDatasets()
	if !ok {
		return nil, false
	}
	out := map[uuid.UUID]string{}
	for _, d := range ds {
		var sb strings.Builder
		fmt.Fprintf(&sb, "dim=%d space=%d P=%d R=%d parts=[", d.Meta.GetDimension(), d.Meta.GetSpace(), d.Meta.GetPartitionCount(), d.Meta.GetReplicationFactor())
		for _, p := range d.Partitions {
			ids := append([]uint64(nil), p.NodeIds...)
			sort.Slice(ids, func(i, j int) bool { return ids[i] < ids[j] })
			fmt.Fprintf(&sb, "%s@%v ", shortG(p.Id), ids)
		}
		sb.WriteString("]")
		out[d.Id] = sb.String()
	}
	return out, true
}

func execCtl(prop string, raw json.RawMessage, wantLog bool) (out Outcome) {
	var cc CtlCase
	if err := json.Unmarshal(raw, &cc); err != nil {
		out.Harness = err.Error()
		return
	}
	c := cc.W3
	st := &ctlState{removed: map[int]bool{}, joinAcked: map[int]bool{}, joinTried: map[int]bool{}, dsAck: map[int]string{}, removalUnknown: map[int]bool{}, rejoined: map[int]bool{}}
	runScenario(&c, prop, &out, wantLog, func(r *W3Run) {
		r.zeroOnly = true
		// control-plane steps are interleaved with the generic ones by position: run them first
		// in order, delegating generic steps to the engine one by one
		ops := r.c.Ops
		for i := 0; i < len(ops); i++ {
			switch ops[i].K {
			case "create", "delete", "join", "removenode", "rejoin":
				r.c.Ops = ops[i : i+1]
				r.execCtlOps(st)
			default:
				if (ops[i].K == "restart" || ops[i].K == "crash" || ops[i].K == "isolate") && st.removed[ops[i].Node] {
					continue
				}
				r.c.Ops = ops[i : i+1]
				r.execOps()
			}
			if len(out.Violations) > 0 {
				break
			}
		}
		r.c.Ops = nil
	}, func(r *W3Run) {
		s := r.s
		if len(out.Violations) > 0 {
			return
		}
		// finish pending client calls
		s.runUntil(func() bool {
			for _, h := range r.hist {
				if h.cop != nil && !h.cop.done {
					return false
				}
			}
			return true
		}, 30*time.Second)
		for _, h := range r.hist {
			r.finishOp(h)
			if h.cop != nil && h.cop.done {
				h.done, h.err = true, h.cop.err
			}
		}
		if !r.settle() {
			if len(out.Violations) == 0 {
				r.viol("control-plane-wedged/"+stuckClass(r), "with all faults stopped and every node restarted the cluster did not converge within 120 simulated seconds: %s", r.describeStuck())
			}
			return
		}
		r.checkNoDeath()
		if len(out.Violations) > 0 {
			return
		}
		s.runFor(5 * time.Second)
		s.runUntil(r.converged, 60*time.Second)

		// acknowledged outcomes
		created := map[int]bool{}
		for _, h := range r.hist {
			switch h.op.K {
			case "create":
				if h.done && h.err == nil {
					st.dsAck[h.op.DS] = "present"
					created[h.op.DS] = true
				}
			case "delete":
				if h.done && h.err == nil {
					st.dsAck[h.op.DS] = "absent"
				} else if st.dsAck[h.op.DS] == "present" {
					st.dsAck[h.op.DS] = "unknown"
				}
			}
		}
		check := func(phase string) bool {
			alive := r.aliveNodes()
			// --- C14: catalogue
			if prop == "C14" || prop == "C18" {
				var ref map[uuid.UUID]string
				refNode := 0
				for _, n := range alive {
					cat, ok := r.catalogueOf(n)
					if !ok {
						r.viol("control-plane-wedged/catalogue-lock-held-forever", "%s: n%d holds its catalogue lock while every goroutine is blocked", phase, n.idx)
						return false
					}
					if prop == "C18" {
						continue
					}
					if ref == nil {
						ref, refNode = cat, n.idx
					} else {
						for id, desc := range ref {
							if cat[id] != desc {
								cls := "different-description"
								if _, ok := cat[id]; !ok {
									cls = "dataset-missing-on-a-member"
								}
								r.viol("catalogues-differ/"+cls+"/"+phase, "%s: n%d lists dataset %s as %q, n%d as %q", phase, refNode, shortG(id), desc, n.idx, cat[id])
								return false
							}
						}
						for id := range cat {
							if _, ok := ref[id]; !ok {
								r.viol("catalogues-differ/dataset-missing-on-a-member/"+phase, "%s: n%d lists dataset %s which n%d does not", phase, n.idx, shortG(id), refNode)
								return false
							}
						}
					}
				}
				if prop == "C14" && ref != nil {
					for slot, state := range st.dsAck {
						info := r.ds[slot]
						if info == nil {
							continue
						}
						switch state {
						case "present":
							if _, ok := ref[info.id]; !ok {
								r.viol("acknowledged-dataset-missing/"+phase, "%s: creation of dataset#%d (%s) was acknowledged and it was never deleted, but no member lists it", phase, slot, shortG(info.id))
								return false
							}
						case "absent":
							if _, ok := ref[info.id]; ok {
								r.viol("deleted-dataset-still-listed/"+phase, "%s: deletion of dataset#%d (%s) was acknowledged but members still list it", phase, slot, shortG(info.id))
								return false
							}
							// its partition groups must be gone from every transport
							for _, n := range alive {
								for _, g := range n.parts.RaftTransport.VerifGroups() {
									for _, p := range info.meta.GetPartitions() {
										pid, _ := uuid.FromBytes(p.GetId())
										if g.VerifId() == pid {
											r.viol("deleted-dataset-partition-still-serving/"+phase, "%s: dataset#%d was deleted but n%d still runs the raft group of its partition %s", phase, slot, n.idx, shortG(pid))
											return false
										}
									}
								}
							}
						}
					}
					r.out.Stat("catalogue_comparisons", 1)
				}
			}
			// --- C20: membership view
			if prop == "C20" {
				want := map[uint64]string{}
				for _, n := range s.nodes {
					if st.removed[n.idx] || st.removalUnknown[n.idx] {
						continue
					}
					if (n.idx <= r.c.Nodes && !st.rejoined[n.idx]) || (n.alive && n.joined) {
						want[n.id] = n.addr
					}
				}
				for _, n := range alive {
					if st.removalUnknown[n.idx] {
						continue // it may have been removed: its own view is not constrained
					}
					got, free := n.parts.ClusterConn.VerifNodes()
					if !free {
						r.viol("control-plane-wedged/address-book-lock-held-forever", "%s: with everything settled and every goroutine blocked, n%d's address book is still locked: whoever applies the membership log there waits for it", phase, n.idx)
						return false
					}
					for id, addr := range want {
						if got[id] != addr {
							cls := "member-missing"
							if a, ok := got[id]; ok {
								cls = "wrong-address"
								_ = a
							}
							r.viol("membership-view/"+cls+"/"+phase, "%s: n%d lists node %d at %q, it joined with address %q (view: %v)", phase, n.idx, id, got[id], addr, got)
							return false
						}
					}
					for id := range got {
						if _, ok := want[id]; !ok {
							idx := s.nodeIdx(id)
							if idx > 0 && st.removed[idx] {
								r.viol("membership-view/removed-member-still-listed/"+phase, "%s: n%d still lists n%d whose removal was acknowledged", phase, n.idx, idx)
								return false
							}
							// a node whose join was not acknowledged may or may not be a member
						}
					}
				}
				r.out.Stat("membership_views_compared", int64(len(alive)))
			}
			return true
		}
		if !check("after-settling") {
			return
		}
		// restart everything once more: recovery from whatever the log / snapshots hold now
		s.pump()
		for _, n := range s.nodes {
			if n.alive {
				s.stopNode(n, true)
			}
		}
		if !r.settle() {
			if len(out.Violations) == 0 {
				r.viol("control-plane-wedged-after-restart/"+stuckClass(r), "after a restart of all nodes the cluster did not converge within 120 simulated seconds: %s", r.describeStuck())
			}
			return
		}
		r.checkNoDeath()
		s.runFor(5 * time.Second)
		s.runUntil(r.converged, 60*time.Second)
		if !check("after-restart") {
			return
		}
		// canary: the control plane still works on every node
		for _, n := range r.aliveNodes() {
			var h *histOp
			ok := false
			// Bounded liveness, not latency: a create gives up by itself after one second,
			// which a large, busy (but live) cluster can exceed several times in a row.
			// A wedged control plane never answers; 60 simulated seconds of attempts tell
			// the two apart.
			start, attempts := s.now(), 0
			for ; !ok && (attempts < 5 || s.now()-start < 60*time.Second); attempts++ {
				h = r.createDataset(1000+n.idx*100+attempts, n, 1, 1, 2, 0, true)
				ok = h.done && h.err == nil
			}
			if !ok {
				r.viol("canary-create-fails", "after everything settled, %d successive dataset creations through n%d over %v failed, the last with: %v", attempts, n.idx, s.now()-start, h.err)
				return
			}
		}
		r.out.Stat("canary_creates_ok", 1)
		// ... and the data plane of what the membership changes left behind: a write, a search
		// and a size request on every surviving dataset through every node may fail (a
		// partition can have lost all its replicas) but must return and must not take the
		// serving process down
		slots := make([]int, 0, len(r.ds))
		for slot := range r.ds {
			slots = append(slots, slot)
		}
		sort.Ints(slots)
		probes := 0
		for _, slot := range slots {
			info := r.ds[slot]
			if info == nil || !info.ackedCreate || info.ackedDelete || info.unknownDelete || slot >= 1000 || probes >= 4 {
				continue
			}
			probes++
			for _, n := range r.aliveNodes() {
				var panicked string
				dsid, dim := info.id.Bytes(), info.dim
				nn := n
				guard := func() {
					if rec := recover(); rec != nil {
						panicked = fmt.Sprintf("%v | %s", rec, topFrame(debug.Stack()))
					}
				}
				ops := []*clientOp{
					s.client(n, fmt.Sprintf("data-plane probe: insert into dataset#%d", slot), 8*time.Second, func(ctx context.Context, n *simNode) (res interface{}, err error) {
						defer guard()
						return n.svcData.Insert(ctx, &pb.InsertRequest{DatasetId: dsid, Id: idOf(900000 + slot*10 + nn.idx).Bytes(), Value: vecOf(900000+slot, 1, dim)})
					}),
				}
				s.runUntil(func() bool { return ops[0].done }, 12*time.Second)
				ops = append(ops, s.client(n, fmt.Sprintf("data-plane probe: search in dataset#%d", slot), 8*time.Second, func(ctx context.Context, n *simNode) (res interface{}, err error) {
					defer guard()
					fs := &fakeServerStream{ctx: ctx}
					return nil, n.svcSrch.Search(&pb.SearchRequest{DatasetId: dsid, Query: vecOf(1, 1, dim), K: 3}, srvStreamItems{fs})
				}))
				s.runUntil(func() bool { return ops[1].done }, 12*time.Second)
				ops = append(ops, s.client(n, fmt.Sprintf("data-plane probe: size of dataset#%d", slot), 8*time.Second, func(ctx context.Context, n *simNode) (res interface{}, err error) {
					defer guard()
					return n.svcDM.GetDatasetSize(ctx, &pb.GetDatasetRequest{DatasetId: dsid})
				}))
				s.runUntil(func() bool { return ops[2].done }, 12*time.Second)
				if panicked != "" {
					r.viol("data-request-panics-after-membership-changes/"+strings.Split(panicked, " | ")[1], "a data request on dataset#%d through n%d panics in its handler (which takes the serving process down): %s", slot, n.idx, panicked)
					return
				}
				for i, o := range ops {
					if !o.done {
						r.viol("data-request-never-returns-after-membership-changes", "request %d of the data-plane probe on dataset#%d through n%d did not return within 12 simulated seconds", i, slot, n.idx)
						return
					}
					if o.err != nil {
						r.out.Stat("data_plane_probes_failed_loudly", 1)
					}
				}
				r.out.Stat("data_plane_probes", 1)
			}
			// whatever the membership changes did to the replica sets: what was stored is stored in
			// the partition that owns its id
			s.runFor(time.Second)
			var order []uuid.UUID
			for _, n := range r.aliveNodes() {
				if d := r.datasetOn(n, info.id); d != nil && len(d.Partitions) == info.p {
					for _, p := range d.Partitions {
						order = append(order, p.Id)
					}
					break
				}
			}
			if len(order) == info.p && info.p > 0 {
				for pid, reps := range r.replicaDumps(info.id) {
					for _, d := range reps {
						for _, v := range d.Vertices {
							if want := order[ownerOf(v.Id, info.p)]; want != pid {
								r.viol("id-stored-in-a-partition-that-does-not-own-it", "dataset#%d: id %s is stored in partition %s; it belongs to partition #%d = %s", slot, v.Id, shortG(pid), ownerOf(v.Id, info.p), shortG(want))
								return
							}
							r.out.Stat("owners_checked_with_independent_arithmetic", 1)
						}
					}
				}
			}
		}
		r.checkNoDeath()
	})
	if st.addrChanged {
		for i := range out.Violations {
			out.Violations[i].Sig = "after-address-change/" + out.Violations[i].Sig
		}
	}
	out.Nontrivial = out.Stats["catalogue_creates"]+out.Stats["membership_joins"]+out.Stats["membership_removals"] > 0
	return
}

func shrinkCtl(raw json.RawMessage) []json.RawMessage {
	var c CtlCase
	if json.Unmarshal(raw, &c) != nil {
		return nil
	}
	var out []json.RawMessage
	emit := func(n W3Case) {
		b, _ := json.Marshal(CtlCase{W3: n})
		out = append(out, b)
	}
	n := len(c.W3.Ops)
	for chunk := n / 2; chunk >= 1; chunk /= 2 {
		for i := 0; i+chunk <= n; i += chunk {
			nc := c.W3
			ops := append(append([]W3Op(nil), c.W3.Ops[:i]...), c.W3.Ops[i+chunk:]...)
			// joins must stay consecutive in node numbering
			next := c.W3.Nodes
			okSeq := true
			for _, op := range ops {
				if op.K == "join" {
					next++
					if op.Node != next {
						okSeq = false
					}
				}
			}
			if !okSeq {
				next = c.W3.Nodes
				for k := range ops {
					if ops[k].K == "join" {
						next++
						ops[k].Node = next
					}
				}
			}
			nc.Ops = ops
			emit(nc)
		}
	}
	if c.W3.Faults {
		nc := c.W3
		nc.Faults = false
		emit(nc)
	}
	if c.W3.Cfg.YieldP != 0 {
		nc := c.W3
		nc.Cfg.YieldP = 0
		emit(nc)
	}
	for i, op := range c.W3.Ops {
		if op.Async {
			nc := c.W3
			nc.Ops = append([]W3Op(nil), c.W3.Ops...)
			nc.Ops[i].Async = false
			emit(nc)
		}
		if op.P > 1 {
			nc := c.W3
			nc.Ops = append([]W3Op(nil), c.W3.Ops...)
			nc.Ops[i].P = 1
			emit(nc)
		}
	}
	return out
}

func init() {
	mk := func(id, rule string, probes []string, q, t int) {
		gen := func(r *simrt.Rand, tier string) json.RawMessage { return genCtl(r, tier, id) }
		exec := func(raw json.RawMessage, wantLog bool) Outcome {
			if id == "C18" && isConnCase(raw) {
				return execConn(raw, wantLog)
			}
			return execCtl(id, raw, wantLog)
		}
		shrink := shrinkCtl
		deathSig := w3DeathSig(id)
		var legs []Leg
		if id == "C18" {
			// second leg: the cluster connection under the token scheduler (world6_conn.go)
			legs = []Leg{{Name: "conn", RecycleEvery: 0, Gen: genConn, Seeds: func(tier string) int {
				if tier == "thorough" {
					return 400000
				}
				return 20000
			}}}
			shrink = func(raw json.RawMessage) []json.RawMessage {
				if isConnCase(raw) {
					return shrinkConn(raw)
				}
				return shrinkCtl(raw)
			}
			inner := deathSig
			deathSig = func(stderr string, cs json.RawMessage) (string, string) {
				if isConnCase(cs) {
					if k := strings.Index(stderr, "fatal error: "); k >= 0 {
						line := strings.SplitN(stderr[k:], "\n", 2)[0]
						return "conn/" + firstWords(line, 6), "the process died while several goroutines used the cluster connection: " + tail(stderr[k:], 1500)
					}
					return "", ""
				}
				return inner(stderr, cs)
			}
			probes = append(append([]string(nil), probes...), "conn_leg_conn_runs", "conn_leg_conn_lock_waits", "conn_leg_conn_notifications_checked")
		}
		Register(&Check{
			ID: id, Level: "exploration", Rule: rule,
			Assumptions: []string{"Badger's transactional durability is trusted", "a removed node is taken out of service by the operator and never restarted; node 1 (the join target of every other node) is never removed",
				"an operation whose acknowledgement did not arrive is indeterminate", "liveness is asserted only after all faults stopped, with a bound of 120 simulated seconds"},
			Real: w3Real, Stub: w3Stub, Probes: probes,
			MemLimit: 96 << 30, WallPerSeed: 4 * time.Minute, RecycleEvery: 20,
			Budget: func(tier string) (int, time.Duration) {
				if tier == "thorough" {
					return t, 50 * time.Minute
				}
				return q, 5 * time.Minute
			},
			Gen: withSchedKnobs(gen), Exec: withSample(gen, exec), Shrink: shrink, DeathSig: deathSig, Legs: legs,
		})
	}
	common := "case = cluster starting with 1..3 servers and 3..12 control-plane steps: create / delete dataset through any node, join of a new node (up to 5), removal of a node, crash / restart of one or all nodes, waits that let the 10 s snapshot ticker compact the zero group (threshold knob 2, 3 or 5000), isolation / heal, optional message faults; then faults stop, everything restarts and settles, the oracle runs, ALL nodes are restarted once more and the oracle runs again, then a canary create through every node; "
	mk("C14", common+"oracle: every member lists the same catalogue (id, dimension, metric, partition ids, replica assignment), acknowledged creates are present, acknowledged deletes are absent and their partition groups are gone; non-trivial = at least one create/join/removal; distinct = hash of the event log",
		[]string{"catalogue_creates", "catalogue_deletes", "catalogue_comparisons", "membership_joins", "membership_removals", "node_restarts", "follower_installed_snapshot", "canary_creates_ok", "fault_crash"}, 2000, 30000)
	mk("C18", common+"half of the create/delete/join steps are issued without waiting (bursts); oracle: bounded liveness - the cluster settles within 120 simulated seconds, no catalogue lock is held while everything is blocked, canary creates succeed on every node; non-trivial = at least one create/join/removal; distinct = hash of the event log",
		[]string{"catalogue_creates", "catalogue_deletes", "membership_joins", "membership_removals", "membership_self_removals", "node_restarts", "canary_creates_ok", "fault_crash"}, 1200, 15000)
	mk("C20", common+"oracle: every member's address book equals the acknowledged joins minus the acknowledged removals, with the announced addresses, after settling and again after a restart of all nodes; non-trivial = at least one create/join/removal; distinct = hash of the event log",
		[]string{"membership_joins", "membership_removals", "membership_self_removals", "membership_views_compared", "node_restarts", "follower_installed_snapshot", "fault_crash"}, 1500, 30000)
}
