package anndbverif

import "testing"

type testing_T = testing.T
