package anndbverif

// C01, dataset half (cluster leg): a nearest-neighbour search on a whole
// dataset — through the Search service of any node, fanned out to the
// partitions' replicas and merged — returns only items that are currently
// stored, with their current metadata and true scores, ascending, unique, at
// most k, and never nothing from a non-empty dataset. World III, fault-free:
// the contents are built by inserts / updates / removes (single and batch)
// through any node, optionally with a restart of every node that recovers the
// partitions from snapshot + log suffix; the searches run after the replicas
// converged, so "the replica that answered" holds the sequential model.

import (
	"encoding/json"
	"fmt"
	"strings"
	"time"

	amath "github.com/marekgalovic/anndb/math"

	"simrt"
)

type C01ClusterCase struct {
	W3       W3Case   `json:"w3"`              // first phase: cluster shape + writes
	More     [][]W3Op `json:"more"`            // further phases of writes
	Searches [][]W3Op `json:"searches"`        // searches after each phase
	CutP     float64  `json:"cut_p,omitempty"` // probability that a leg's answer stream breaks off after some of its items, while the searches run (a search may then fail; one that succeeds is judged as ever)
}

func isClusterCase(raw json.RawMessage) bool {
	var probe struct {
		W3 *json.RawMessage `json:"w3"`
	}
	return json.Unmarshal(raw, &probe) == nil && probe.W3 != nil
}

func genC01Searches(r *simrt.Rand, nodes, dim, nIds, maxVer int) []W3Op {
	var out []W3Op
	n := r.Range(2, 5)
	for i := 0; i < n; i++ {
		var q []float32
		if r.Bool(0.5) && maxVer > 0 {
			// exactly a vector that was written at some point (live or not)
			q = vecOf(r.Intn(nIds), r.Range(1, maxVer), dim)
		} else {
			q = make([]float32, dim)
			for j := range q {
				q[j] = float32(r.Range(-60, 60)) / 4
			}
			if q[0] == 0 {
				q[0] = 1 // no zero vector under cosine (C12's domain)
			}
		}
		out = append(out, W3Op{K: "search", Node: r.Range(1, nodes), Q: q, N: []int{1, 2, 3, 5, 10, 50}[r.Intn(6)]})
	}
	return out
}

func genC01Cluster(r *simrt.Rand, tier string) json.RawMessage {
	c := C01ClusterCase{}
	c.W3 = W3Case{Nodes: r.Range(1, 3), Dim: r.Range(2, 4), Space: r.Intn(3)}
	c.W3.Cfg = W3Cfg{Seed: r.Uint64(), Net: NetCfg{MinLatMs: 1, JitterMs: r.Range(0, 8)}, SnapshotOffset: []int64{2, 3, 5000}[r.Intn(3)], YieldP: []int{0, 10}[r.Intn(2)]}
	c.W3.Partitions = r.Range(1, 4)
	c.W3.Replicas = r.Range(1, 3)
	if c.W3.Replicas > c.W3.Nodes {
		c.W3.Replicas = c.W3.Nodes
	}
	ver := 0
	nIds := r.Range(3, 10)
	phases := r.Range(1, 3)
	for ph := 0; ph < phases; ph++ {
		ops := genWrites(r, c.W3.Nodes, r.Range(3, 12), nIds, &ver, 0)
		if ph > 0 && r.Bool(0.6) {
			// every node restarts: the partitions come back from snapshot + log suffix
			pre := []W3Op{}
			if c.W3.Cfg.SnapshotOffset < 100 {
				pre = append(pre, W3Op{K: "wait", Ms: 10500})
			}
			pre = append(pre, W3Op{K: "crashall"}, W3Op{K: "wait", Ms: 300})
			for i := 1; i <= c.W3.Nodes; i++ {
				pre = append(pre, W3Op{K: "restart", Node: i})
			}
			pre = append(pre, W3Op{K: "settle"})
			k := r.Range(0, len(ops))
			ops = append(append(append([]W3Op(nil), ops[:k]...), pre...), ops[k:]...)
		}
		if ph == 0 {
			c.W3.Ops = ops
		} else {
			c.More = append(c.More, ops)
		}
		c.Searches = append(c.Searches, genC01Searches(r, c.W3.Nodes, c.W3.Dim, nIds, ver))
	}
	if c.W3.Nodes > 1 && r.Bool(0.3) {
		c.CutP = []float64{0.3, 0.6}[r.Intn(2)]
	}
	b, _ := json.Marshal(c)
	return b
}

func execC01Cluster(raw json.RawMessage, wantLog bool) (out Outcome) {
	var c C01ClusterCase
	if err := json.Unmarshal(raw, &c); err != nil {
		out.Harness = err.Error()
		return
	}
	sp := newSpace([]int{0, 2, 3}[c.W3.Space%3])
	runScenario(&c.W3, "C01", &out, wantLog, nil, func(r *W3Run) {
		s := r.s
		m := &seqModel{items: map[int]int{}, meta: map[int]map[string]string{}}
		done := 0 // history entries already applied to the model
		kindOf := map[string]string{"ins": "ins", "upd": "upd", "rem": "rem", "bins": "ins", "bupd": "upd", "brem": "rem"}
		for ph := 0; ; ph++ {
			if len(out.Violations) > 0 {
				return
			}
			r.waitAll(20 * time.Second)
			s.runFor(2 * time.Second)
			if !s.runUntil(r.converged, 60*time.Second) {
				out.Stat("did_not_converge(C05 domain)", 1)
				return
			}
			info := r.ds[0]
			// the model: every outcome so far equals a sequential map (otherwise another
			// property is broken and this run cannot judge searches)
			for ; done < len(r.hist); done++ {
				h := r.hist[done]
				k, ok := kindOf[h.op.K]
				if !ok {
					continue
				}
				for i, id := range h.op.Ids {
					ver := 0
					if i < len(h.op.Vers) {
						ver = h.op.Vers[i]
					}
					want := m.apply(k, id, ver, true)
					if !h.done || h.perId[id] != want {
						out.Stat("write_outcome_differs_from_sequential_map(C10/C11 domain)", 1)
						return
					}
				}
			}
			if ph < len(c.Searches) {
				for _, op := range c.Searches[ph] {
					if op.Node < 1 || op.Node > len(s.nodes) || !s.nodes[op.Node-1].alive {
						continue
					}
					if c.CutP > 0 {
						s.cfg.Net.CutStream = c.CutP
						s.faultsOn = true
					}
					h, _ := r.runRead(op)
					s.faultsOn = false
					out.Stat("dataset_searches", 1)
					if !h.done {
						r.viol("dataset-search/never-returned", "Dataset.Search on n%d did not return within 15 simulated seconds", op.Node)
						return
					}
					if h.err != nil && c.CutP > 0 {
						out.Stat("dataset_searches_failed_loudly_on_a_broken_stream", 1)
						continue
					}
					if h.err != nil {
						r.viol("dataset-search/fault-free-search-failed", "no fault is active, yet Dataset.Search on n%d failed: %v", op.Node, h.err)
						return
					}
					res := h.res.(*searchRes)
					if why, cls := c01JudgeResult(res, op, m, info.dim, sp); why != "" {
						r.viol("dataset-search/"+cls, "Dataset.Search(k=%d, q=%v) on n%d over %d partitions x %d replicas holding %d items: %s", op.N, op.Q, op.Node, c.W3.Partitions, c.W3.Replicas, len(m.items), why)
						return
					}
					out.Stat("dataset_search_results_checked", 1)
					out.Stat("dataset_search_items_checked", int64(len(res.items)))
					if len(m.items) > 0 && hasRemovedOrUpdated(r.hist) {
						out.Stat("dataset_searches_after_removal_or_update", 1)
					}
				}
			}
			if ph >= len(c.More) {
				break
			}
			r.c.Ops = c.More[ph]
			r.execOps()
		}
	})
	out.Nontrivial = out.Stats["dataset_search_results_checked"] > 0
	return
}

func hasRemovedOrUpdated(hist []*histOp) bool {
	for _, h := range hist {
		if !h.done {
			continue
		}
		switch h.op.K {
		case "rem", "upd", "brem", "bupd":
			for _, res := range h.perId {
				if res == "ok" {
					return true
				}
			}
		}
	}
	return false
}

// c01JudgeResult applies the C01 oracle to one dataset search result.
func c01JudgeResult(res *searchRes, op W3Op, m *seqModel, dim int, sp interface {
	Distance(a, b amath.Vector) float32
}) (why, cls string) {
	byUUID := map[[16]byte]int{}
	for id := range m.items {
		byUUID[idOf(id)] = id
	}
	if len(res.items) > op.N {
		return fmt.Sprintf("returned %d items for k=%d", len(res.items), op.N), "more-than-k"
	}
	if len(res.items) == 0 && len(m.items) > 0 && op.N >= 1 {
		return "returned nothing although the dataset holds items", "empty-result"
	}
	seen := map[[16]byte]bool{}
	for i, it := range res.items {
		id, ok := byUUID[it.id]
		if !ok {
			return fmt.Sprintf("position %d is %s, which is not stored (removed or never inserted)", i, it.id), "returned-removed-id"
		}
		if seen[it.id] {
			return fmt.Sprintf("id#%d appears twice", id), "duplicate-id"
		}
		seen[it.id] = true
		ver := m.items[id]
		want := sp.Distance(amath.Vector(op.Q), amath.Vector(vecOf(id, ver, dim)))
		if !close32(it.score, want) {
			return fmt.Sprintf("id#%d (version %d) has score %v, the distance between the query and its current vector is %v", id, ver, it.score, want), "wrong-score"
		}
		if !metaEqual(it.meta, m.meta[id]) {
			return fmt.Sprintf("id#%d (version %d) came with metadata %v, its current metadata is %v", id, ver, it.meta, m.meta[id]), "wrong-metadata"
		}
		if i > 0 && res.items[i-1].score > it.score {
			return fmt.Sprintf("scores not ascending at position %d: %v then %v", i, res.items[i-1].score, it.score), "not-sorted"
		}
	}
	return "", ""
}

func shrinkC01Cluster(raw json.RawMessage) []json.RawMessage {
	var c C01ClusterCase
	if json.Unmarshal(raw, &c) != nil {
		return nil
	}
	var out []json.RawMessage
	emit := func(n C01ClusterCase) {
		b, _ := json.Marshal(n)
		out = append(out, b)
	}
	if c.CutP > 0 {
		n := c
		n.CutP = 0
		emit(n)
	}
	// drop the last phase
	if len(c.More) > 0 {
		n := c
		n.More = c.More[:len(c.More)-1]
		if len(n.Searches) > len(n.More)+1 {
			n.Searches = n.Searches[:len(n.More)+1]
		}
		emit(n)
	}
	// drop searches
	for ph := range c.Searches {
		for i := range c.Searches[ph] {
			n := c
			n.Searches = append([][]W3Op(nil), c.Searches...)
			n.Searches[ph] = append(append([]W3Op(nil), c.Searches[ph][:i]...), c.Searches[ph][i+1:]...)
			emit(n)
		}
	}
	// drop writes (first phase through the shared shrinker, later phases one by one)
	shrinkW3Ops(c.W3, func(w W3Case) {
		n := c
		n.W3 = w
		emit(n)
	})
	for ph := range c.More {
		for i := range c.More[ph] {
			n := c
			n.More = append([][]W3Op(nil), c.More...)
			n.More[ph] = append(append([]W3Op(nil), c.More[ph][:i]...), c.More[ph][i+1:]...)
			emit(n)
		}
	}
	return out
}

var _ = strings.Contains
