module anndbverif

go 1.26.8

require (
	github.com/anishathalye/porcupine v1.3.0
	github.com/marekgalovic/anndb v0.0.0
	simrt v0.0.0
)

replace github.com/marekgalovic/anndb => /dev/shm/anndb-verif/PLACEHOLDER

replace simrt => ../simrt
