package anndbverif

// World III: a cluster of real anndb.Server objects in one synctest bubble.
// This file is the simulator core: node lifecycle (start, crash at a durable
// write boundary or at quiescence, restart on the same Badger directory), the
// simulated network (gRPC client interceptors -> service objects of the target
// node, with loss, delay, duplication, partitions), the simulated disk
// boundary (hook H3), the discrete-event driver and the event log.

import (
	"bytes"
	"context"
	"encoding/json"
	"fmt"
	"io"
	"os"
	"path/filepath"
	"reflect"
	"runtime"
	"runtime/debug"
	"runtime/metrics"
	"sort"
	"strconv"
	"strings"
	"sync"
	"syscall"
	"testing/synctest"
	"time"

	etcdraft "github.com/coreos/etcd/raft"
	"github.com/coreos/etcd/raft/raftpb"
	badger "github.com/dgraph-io/badger/v2"
	"github.com/golang/protobuf/proto"
	"github.com/marekgalovic/anndb"
	"github.com/marekgalovic/anndb/cluster"
	pb "github.com/marekgalovic/anndb/protobuf"
	"github.com/marekgalovic/anndb/services"
	"github.com/marekgalovic/anndb/storage"
	"github.com/marekgalovic/anndb/storage/raft"
	"github.com/marekgalovic/anndb/storage/wal"
	uuid "github.com/satori/go.uuid"
	"github.com/sirupsen/logrus"
	"google.golang.org/grpc"
	"google.golang.org/grpc/codes"
	"google.golang.org/grpc/connectivity"
	"google.golang.org/grpc/metadata"
	"google.golang.org/grpc/status"

	"simrt"
)

type NetCfg struct {
	DropReq   float64 `json:"drop_req,omitempty"`
	DropResp  float64 `json:"drop_resp,omitempty"`
	Dup       float64 `json:"dup,omitempty"`        // raft messages only
	Late      float64 `json:"late,omitempty"`       // hold a message 0.5..3 s
	CutStream float64 `json:"cut_stream,omitempty"` // a server stream breaks off after some of its messages
	MinLatMs  int     `json:"min_lat_ms,omitempty"`
	JitterMs  int     `json:"jitter_ms,omitempty"`
}

type W3Cfg struct {
	Seed           uint64 `json:"seed"`
	Net            NetCfg `json:"net"`
	SnapshotOffset int64  `json:"snapshot_offset"` // knob (rewrite R4); 5000 is the shipped value
	YieldP         int    `json:"yield_p"`         // /256 probability of Gosched at a rewrite-inserted yield point
	Deep           int    `json:"deep,omitempty"`  // /1024 probability that a yield point parks the goroutine until every other goroutine has run as far as it can (a 1 ns sleep on the fake clock): a thread the OS does not schedule for a while
	Burst          int    `json:"burst,omitempty"` // % probability that the events due within the next 2 ms are started together with the one that is due (their handlers then run concurrently and interleave at the yield points)
}

type simNode struct {
	idx         int
	id          uint64
	port        string
	addr        string
	dir         string
	join        []string
	inc         int // incarnation
	alive       bool
	dead        map[int]bool // incarnations that crashed
	gone        map[int]bool // ... and whose teardown (raft groups stopped, database closed) is complete
	server      *anndb.Server
	parts       *anndb.VerifParts
	svcData     pb.DataManagerServer
	svcDM       pb.DatasetManagerServer
	svcSrch     pb.SearchServer
	svcNM       pb.NodesManagerServer
	hookHit     int // durable-write boundary hits of the current incarnation
	crashAt     int // crash when hookHit reaches this (0: never)
	errAt       int // the errAt-th next Save / local snapshot fails with a disk error (0: never)
	errSeen     int
	diskErrInc  int  // incarnation that was handed a disk error (its log.Fatal is the legal reaction)
	errStays    bool // the disk stays full: every later write of the incarnation fails as well
	diskFullInc int
	fatal       []string
	stalled     bool
	joined      bool          // JoinCluster returned: cmd/anndb would now be serving
	joinAct     time.Duration // simulated time of the node's last join activity (handshake begun or returned), -1: none
	retired     bool          // removed from the cluster and taken out of service for good
	limbo       bool          // a removal was requested but never acknowledged: the node runs on, nothing is asserted about it
}

type simCall struct {
	seq       uint64
	from      uint64 // node id, 0 = external client
	fromInc   int
	toAddr    string
	method    string
	req       []byte
	reqType   reflect.Type
	deadline  time.Time
	hasDL     bool
	stream    bool
	done      chan struct{}
	resp      [][]byte
	err       error
	abandoned bool
	dupOf     *simCall
	executed  bool
	key       string
	post      uint64
}

type infoLeg struct {
	to        int
	partition []byte
	ok        bool // answered with success
	loaded    bool // the answering node had the partition's raft group loaded when it answered
}

type simEvent struct {
	at  time.Duration
	seq uint64
	fn  func()
	tag string
}

type applyRec struct {
	node  uint64
	inc   int
	group uuid.UUID
	index uint64
	term  uint64
	dig   uint64
	typ   raftpb.EntryType
	data  []byte // payload of a normal entry of a partition group (for the shadow state machine)
}

type Sim struct {
	cfg                                     W3Cfg
	out                                     *Outcome
	baseDir                                 string
	t0                                      time.Time
	rnet                                    *simrt.Rand
	rburst                                  *simrt.Rand
	deepYields                              int
	longYields                              int
	yieldWindow, deepInWindow, longInWindow int
	dbClosed                                map[*badger.DB]bool
	inflight                                map[*simCall]*simNode // calls a node is executing right now
	clientOps                               []*clientOp           // client requests that have not returned yet
	trackItems                              bool                  // record which item changes the applied partition entries carry
	appliedItems                            map[string]bool       // "kind/item id/version" of every item change some replica applied
	rfault                                  *simrt.Rand
	ryield                                  *simrt.Rand
	nodes                                   []*simNode
	byId                                    map[uint64]*simNode
	byAddr                                  map[string]*simNode
	byDB                                    map[*badger.DB]*simNode
	dbInc                                   map[*badger.DB]int
	mu                                      sync.Mutex // guards inbox, seq (product goroutines post, driver drains)
	inbox                                   []func()
	calls                                   []*simCall
	seq                                     uint64
	postSeq                                 uint64
	events                                  []*simEvent // heap by (at, seq)
	evSeq                                   uint64
	blocked                                 map[[2]uint64]bool // directed link from->to blocked
	h                                       uint64
	log                                     []string
	wantLog                                 bool
	applies                                 []applyRec
	steps                                   int
	gcNext                                  uint64 // heap size at which the driver collects garbage (at quiescence)
	gcs                                     int
	stopped                                 bool
	// observers
	onRaftMsg      func(from *simNode, to uint64, group uuid.UUID, m raftpb.Message)
	onApply        func(a applyRec)
	onApplySync    func(n *simNode, group uuid.UUID, index uint64) // on the applying goroutine, at the instant of the apply
	onIO           func(n *simNode, group uuid.UUID, op string, before bool)
	pauseHook      func(nodeId uint64, partition uuid.UUID, point string)
	searchLegs     []searchLeg
	infoLegs       []infoLeg // answered PartitionInfo lookups (C17)
	rpcCount       map[string]int
	faultsOn       bool
	release        chan struct{}
	paused         int
	closing        bool
	deadTransports []*raft.RaftTransport // of crashed incarnations: groups they start later must be stopped too
	killedGroups   map[*raft.RaftGroup]bool
}

type searchLeg struct {
	from   uint64
	to     uint64
	req    *pb.SearchPartitionsRequest
	items  []*pb.SearchResultItem
	err    error
	callId uint64
}

var curSim *Sim

func (s *Sim) now() time.Duration { return time.Since(s.t0) }

var liveLog *os.File

func (s *Sim) logf(f string, a ...interface{}) {
	line := fmt.Sprintf(f, a...)
	if p := os.Getenv("VERIF_LIVELOG"); p != "" {
		if liveLog == nil {
			liveLog, _ = os.OpenFile(fmt.Sprintf("%s.%d", p, os.Getpid()), os.O_CREATE|os.O_WRONLY|os.O_APPEND, 0644)
		}
		fmt.Fprintf(liveLog, "seed=%d t=%-8s %s\n", s.cfg.Seed, s.now().Round(time.Millisecond), line)
	}
	s.h = simrt.HashBytes(s.h, []byte(line))
	if s.wantLog {
		s.log = append(s.log, fmt.Sprintf("t=%-8s %s", s.now().Round(time.Millisecond), line))
	}
}

// post hands a closure from a product goroutine to the driver.
func (s *Sim) post(fn func()) {
	s.mu.Lock()
	s.inbox = append(s.inbox, fn)
	s.mu.Unlock()
}

func (s *Sim) at(d time.Duration, tag string, fn func()) {
	s.evSeq++
	ev := &simEvent{at: s.now() + d, seq: s.evSeq, fn: fn, tag: tag}
	s.events = append(s.events, ev)
	// sift up
	i := len(s.events) - 1
	for i > 0 {
		p := (i - 1) / 2
		if evLess(s.events[i], s.events[p]) {
			s.events[i], s.events[p] = s.events[p], s.events[i]
			i = p
		} else {
			break
		}
	}
}

func evLess(a, b *simEvent) bool {
	if a.at != b.at {
		return a.at < b.at
	}
	return a.seq < b.seq
}

func (s *Sim) popEvent() *simEvent {
	n := len(s.events)
	ev := s.events[0]
	s.events[0] = s.events[n-1]
	s.events = s.events[:n-1]
	i := 0
	for {
		l, r, m := 2*i+1, 2*i+2, i
		if l < len(s.events) && evLess(s.events[l], s.events[m]) {
			m = l
		}
		if r < len(s.events) && evLess(s.events[r], s.events[m]) {
			m = r
		}
		if m == i {
			break
		}
		s.events[i], s.events[m] = s.events[m], s.events[i]
		i = m
	}
	return ev
}

// ---------------------------------------------------------------------------
// set-up / tear-down of the process-wide hooks

var w3Once sync.Once
var devNull *os.File
var fatalSink func(msg string, fields logrus.Fields)

type fatalHook struct{}

func (fatalHook) Levels() []logrus.Level {
	return []logrus.Level{logrus.FatalLevel, logrus.PanicLevel}
}
func (fatalHook) Fire(e *logrus.Entry) error {
	if fatalSink != nil {
		fatalSink(e.Message, e.Data)
	}
	return nil
}

func w3Global() {
	w3Once.Do(func() {
		logrus.SetOutput(io.Discard)
		devNull, _ = os.OpenFile(os.DevNull, os.O_WRONLY, 0)
		logrus.SetLevel(logrus.ErrorLevel)
		if os.Getenv("VERIF_PRODLOG") != "" { // debugging aid: the product's own log lines
			logrus.SetOutput(realStderr)
			logrus.SetLevel(logrus.InfoLevel)
		}
		logrus.AddHook(fatalHook{})
		logrus.StandardLogger().ExitFunc = func(code int) {
			// log.Fatal: the process would exit. Here the calling goroutine ends
			// and the node is recorded as dead by the fatal hook.
			runtime.Goexit()
		}
		installUUIDGenerator()
	})
}

func newSim(cfg W3Cfg, out *Outcome, wantLog bool) *Sim {
	w3Global()
	s := &Sim{cfg: cfg, out: out, wantLog: wantLog, t0: time.Now(), baseDir: scratchRunDir(),
		byId: map[uint64]*simNode{}, byAddr: map[string]*simNode{}, byDB: map[*badger.DB]*simNode{}, dbInc: map[*badger.DB]int{},
		blocked: map[[2]uint64]bool{}, rpcCount: map[string]int{}, release: make(chan struct{}), killedGroups: map[*raft.RaftGroup]bool{}}
	root := simrt.NewRand(cfg.Seed)
	s.rnet = root.Split("net")
	s.rburst = root.Split("burst")
	s.appliedItems = map[string]bool{}
	s.dbClosed = map[*badger.DB]bool{}
	s.inflight = map[*simCall]*simNode{}
	s.rfault = root.Split("fault")
	s.ryield = root.Split("yield")
	seedRuntime(cfg.Seed)
	reseedRaftRand(cfg.Seed)
	resetUUIDGenerator(cfg.Seed)
	if os.Getenv("VERIF_DEBUG") != "" {
		fmt.Fprintf(realStderr, "uuid probe: %s %s gen=%T\n", uuid.NewV4(), uuid.NewV4(), uuidGlobal)
	}
	simrt.SetOrder(cfg.Seed, 2)
	simrt.SetMode(simrt.ModeBubble)
	so := cfg.SnapshotOffset
	if so == 0 {
		so = 5000
	}
	raft.VerifSetSnapshotOffset(so)
	yp := cfg.YieldP
	deep := cfg.Deep
	yseed := s.ryield.Uint64()
	ytraceOn := os.Getenv("VERIF_YTRACE") != ""
	simrt.YieldFn = func(site int) {
		if ytraceOn { // development aid: the interleaving of all yield points, for diffing two executions
			ytrace = append(ytrace, fmt.Sprintf("%d %d s%d t=%v", runtimeVerifGetTag(), goid(), site, time.Since(s.t0)))
		}
		tag := runtimeVerifGetTag()
		if tag == 0 {
			// the driver itself, reading the system through its own code (a log store opened
			// by a monitor): observing takes no simulated time and is never descheduled
			return
		}
		gone := func() bool {
			// (only once the incarnation has been taken down completely: until then the
			// teardown itself needs some of its goroutines, e.g. the raft node's)
			n := s.byId[tag/1000]
			return n != nil && n.gone[int(tag%1000)]
		}
		if gone() {
			s.park() // a goroutine of a crashed incarnation: the process is gone, it runs no further
		}
		defer func() {
			if gone() {
				s.park() // ... also when the crash happened while it was not scheduled
			}
		}()
		if yp > 0 || deep > 0 {
			// a function of the seed, the goroutine's label and its own draw count: no shared stream
			z := mix64(yseed ^ runtimeVerifGetTag()*0x9e3779b97f4a7c15 ^ runtimeVerifNextCount()<<20 ^ uint64(site))
			dp := deep
			if site == -100 {
				dp = deep / 8 // function entries are many: a smaller share each
			}
			if dp > 0 && int((z>>16)%1024) < dp {
				// budgets per 4 simulated seconds, so that late phases of a run get their share
				if w := int(time.Since(s.t0) / (4 * time.Second)); w != s.yieldWindow {
					s.yieldWindow, s.deepInWindow, s.longInWindow = w, 0, 0
				}
			}
			if dp > 0 && int((z>>16)%1024) < dp && s.deepInWindow < 400 {
				// everybody else runs until it blocks (whole chains of hand-offs: a raft message
				// received, persisted and applied), then this goroutine goes on
				s.deepYields++
				s.deepInWindow++
				d := time.Nanosecond
				if (z>>30)%4 == 0 && s.longInWindow < 8 {
					s.longInWindow++ // (bounded: simulated time must stay dominated by the system's own timers)
					// ... or is not scheduled for a few milliseconds, during which the network goes on delivering
					d = time.Duration(500+(z>>32)%3500) * time.Microsecond
					s.longYields++
				}
				time.Sleep(d)
			} else if site != -100 && int(z%256) < yp {
				runtime.Gosched()
			} else if site == -100 && int(z%2048) < yp {
				runtime.Gosched()
			}
		}
	}
	curSim = s
	cluster.VerifDialOptions = s.dialOptions
	wal.VerifIOHook = s.ioHook
	raft.VerifOnApply = func(nodeId uint64, group uuid.UUID, e raftpb.Entry) {
		n := s.byId[nodeId]
		inc := s.incOfCaller(n)
		if n != nil && n.dead[inc] {
			return // a goroutine of a crashed incarnation that has not reached its parking place yet: the process is gone
		}
		a := applyRec{node: nodeId, inc: inc, group: group, index: e.Index, term: e.Term, dig: simrt.HashBytes(uint64(e.Type)+1, e.Data), typ: e.Type}
		if e.Type == raftpb.EntryNormal && len(e.Data) > 0 && !uuid.Equal(group, uuid.Nil) {
			a.data = e.Data
		}
		if s.trackItems && e.Type == raftpb.EntryNormal && len(e.Data) > 0 && !uuid.Equal(group, uuid.Nil) {
			// which item changes this entry carries (kind 0 insert, 1 update, 2 remove / item id / vector version)
			var ch pb.PartitionChange
			if proto.Unmarshal(e.Data, &ch) == nil {
				note := func(kind int, id []byte, v []float32) {
					ver := 0
					if len(v) > 0 {
						ver = int(v[0])
					}
					key := fmt.Sprintf("%d/%x/%d", kind, id, ver)
					s.post(func() { s.appliedItems[key] = true })
				}
				switch t := int(ch.GetType()); {
				case t <= 2:
					note(t, ch.GetId(), ch.GetValue())
				default:
					for _, it := range ch.GetBatchItems() {
						note(t-3, it.GetId(), it.GetValue())
					}
				}
			}
		}
		if s.onApplySync != nil && n != nil && n.alive && n.parts != nil && inc == n.inc {
			s.onApplySync(n, group, e.Index)
		}
		s.post(func() {
			s.applies = append(s.applies, a)
			if s.onApply != nil {
				s.onApply(a)
			}
		})
	}
	raft.VerifOnSnapshotApplied = func(nodeId uint64, group uuid.UUID, index, term uint64) {
		n := s.byId[nodeId]
		inc := s.incOfCaller(n)
		if n != nil && n.dead[inc] {
			return
		}
		s.post(func() {
			s.out.Stat("follower_installed_snapshot", 1)
			s.logf("n%d group %s installed snapshot at %d", s.nodeIdx(nodeId), shortG(group), index)
			if s.onApply != nil {
				s.onApply(applyRec{node: nodeId, inc: inc, group: group, index: index, term: term, typ: -1})
			}
		})
	}
	raft.VerifOnStart = func(nodeId uint64, group uuid.UUID, index uint64) {
		// a (re)started group instance applies from the entry after its own snapshot
		n := s.byId[nodeId]
		inc := s.incOfCaller(n)
		if n != nil && n.dead[inc] {
			return
		}
		s.post(func() {
			if s.onApply != nil {
				s.onApply(applyRec{node: nodeId, inc: inc, group: group, index: index, typ: -1})
			}
		})
	}
	storage.VerifPauseHook = func(nodeId uint64, partition uuid.UUID, point string) {
		if s.pauseHook != nil {
			s.pauseHook(nodeId, partition, point)
		}
	}
	fatalSink = func(msg string, fields logrus.Fields) {
		nid := ""
		if v, ok := fields["node_id"]; ok {
			nid = strings.TrimSpace(fmt.Sprint(v))
		}
		s.post(func() {
			for _, n := range s.nodes {
				if fmt.Sprintf("%x", n.id) == nid || nid == "" {
					if n.diskErrInc != 0 && n.diskErrInc == n.inc && n.alive {
						// fail-stop on a disk error is the legal reaction: the process exits
						s.logf("n%d exits after the disk error: %s", n.idx, msg)
						s.out.Stat("process_exit_after_disk_error", 1)
						s.stopNode(n, true)
						if nid != "" {
							break
						}
						continue
					}
					n.fatal = append(n.fatal, msg)
					s.logf("n%d log.Fatal: %s", n.idx, msg)
					if nid != "" {
						break
					}
				}
			}
		})
	}
	return s
}

func (s *Sim) nodeIdx(id uint64) int {
	if n := s.byId[id]; n != nil {
		return n.idx
	}
	return -1
}

func shortG(g uuid.UUID) string {
	if uuid.Equal(g, uuid.Nil) {
		return "zero"
	}
	return g.String()[:8]
}

// park blocks a goroutine of a crashed incarnation until the run is over; it
// then ends the goroutine (its deferred ticker.Stop calls run, so the bubble
// can finish).
func (s *Sim) park() {
	<-s.release
	runtime.Goexit()
}

func (s *Sim) close() {
	// End of the run: every node goes down (raft groups stopped, databases still open),
	// then simulated time runs on for a while with a dead network so that every
	// goroutine of this run that is still waiting for a timeout or a lock gets its turn;
	// raft groups such goroutines start are stopped at once. Only then are the databases
	// closed, so that nothing can read from a closed database while the bubble winds down.
	s.closing = true
	var dbs []*badger.DB
	for _, n := range s.nodes {
		if n.alive {
			if n.parts != nil {
				dbs = append(dbs, n.parts.DB)
			}
			s.stopNode(n, false)
		}
	}
	for i := 0; i < 2500; i++ {
		time.Sleep(simQuantum)
		synctest.Wait()
		s.mu.Lock()
		s.inbox, s.calls = nil, nil
		s.mu.Unlock()
		s.reapZombies()
	}
	for _, db := range dbs {
		func() {
			defer func() { recover() }()
			db.Close()
		}()
	}
	s.stopped = true
	close(s.release)
	synctest.Wait()
	cluster.VerifDialOptions = nil
	wal.VerifIOHook = nil
	raft.VerifOnApply = nil
	raft.VerifOnSnapshotApplied = nil
	raft.VerifOnStart = nil
	storage.VerifPauseHook = nil
	fatalSink = nil
	simrt.YieldFn = nil
	simrt.SetMode(simrt.ModePlain)
	curSim = nil
	os.RemoveAll(s.baseDir)
}

// ---------------------------------------------------------------------------
// nodes

func (s *Sim) addNode(join []int) *simNode {
	i := len(s.nodes) + 1
	n := &simNode{idx: i, id: uint64(i), port: fmt.Sprintf("%d", 17000+i), dead: map[int]bool{}, gone: map[int]bool{}, joinAct: -1}
	n.addr = ":" + n.port
	n.dir = filepath.Join(s.baseDir, fmt.Sprintf("node%d", i))
	os.MkdirAll(n.dir, 0755)
	for _, j := range join {
		n.join = append(n.join, s.nodes[j-1].addr)
	}
	s.nodes = append(s.nodes, n)
	s.byId[n.id] = n
	s.byAddr[n.addr] = n
	return n
}

// startNode boots (or reboots) the node the way cmd/anndb does: NewServer,
// Run (here: the real setup() without a listener), JoinCluster.
func (s *Sim) startNode(n *simNode) error {
	n.inc++
	n.hookHit = 0
	n.crashAt = 0
	n.errAt, n.errSeen = 0, 0
	n.fatal = nil
	cfg := anndb.NewConfig()
	cfg.RaftNodeId = n.id
	cfg.Port = n.port
	cfg.DataDir = n.dir
	cfg.JoinNodes = append([]string(nil), n.join...)
	n.server = anndb.NewServer(cfg)
	n.alive = true // hooks fired during setup belong to this incarnation
	var err error
	withTag(n.id*1000+uint64(n.inc), func() {
		// server.go gives Badger a fresh logrus logger that captures os.Stderr when it is
		// created: point it at /dev/null for the duration of setup only (fatal messages of
		// other loggers and of the runtime must stay visible to the parent)
		oldStderr := os.Stderr
		if devNull != nil {
			os.Stderr = devNull
		}
		defer func() {
			os.Stderr = oldStderr
			if r := recover(); r != nil {
				err = fmt.Errorf("panic in %s: %v", topFrame(debug.Stack()), r)
			}
		}()
		// Server.setup replays the node's log on this (the driver's) goroutine. If the product
		// wedges in there nothing else can run the simulation any more; a timer of the bubble
		// still fires (everything is durably blocked, so simulated time races ahead) and turns
		// the wedge into an observation the parent process classifies.
		setupDone := make(chan struct{})
		idx := n.idx
		go func() {
			t := time.NewTimer(600 * time.Second)
			defer t.Stop()
			select {
			case <-setupDone:
			case <-t.C:
				buf := make([]byte, 4<<20)
				k := runtime.Stack(buf, true)
				// the blocked goroutines of the product first, the marker last (the parent keeps the tail)
				var blocked []string
				for _, g := range strings.Split(string(buf[:k]), "\n\n") {
					if strings.Contains(g, "github.com/marekgalovic/anndb/storage") && !strings.Contains(g, "anndbverif.(*Sim).park") {
						lines := strings.Split(g, "\n")
						if len(lines) > 9 {
							lines = lines[:9]
						}
						blocked = append(blocked, strings.Join(lines, "\n"))
					}
					if len(blocked) >= 8 {
						break
					}
				}
				fmt.Fprintf(realStderr, "%s\n\npanic: SETUP-WEDGED: the start-up of n%d (Server.setup: wiring and replay of its log) did not return within 600 simulated seconds\n", strings.Join(blocked, "\n\n"), idx)
				os.Exit(3)
			}
		}()
		err = n.server.VerifSetup()
		close(setupDone)
	})
	if err != nil {
		n.alive = false
		n.dead[n.inc] = true
		s.logf("n%d start failed: %v", n.idx, err)
		s.out.Stat("node_start_failed", 1)
		// tear down whatever the failed setup left behind
		p := n.server.VerifParts()
		func() {
			defer func() { recover() }()
			if p.ZeroGroup != nil {
				p.ZeroGroup.VerifKill()
			}
			if p.RaftTransport != nil {
				for _, g := range p.RaftTransport.VerifGroups() {
					g.VerifKill()
				}
			}
			synctest.Wait()
			if p.DB != nil {
				p.DB.Close()
			}
		}()
		n.server.VerifForget()
		return err
	}
	n.parts = n.server.VerifParts()
	s.byDB[n.parts.DB] = n
	s.dbInc[n.parts.DB] = n.inc
	n.svcData = services.NewDataManagerServer(n.parts.DatasetManager)
	n.svcDM = services.NewDatasetManagerServer(n.parts.DatasetManager)
	n.svcSrch = services.NewSearchServer(n.parts.DatasetManager)
	n.svcNM = services.NewNodesManagerServer(n.parts.NodesManager)
	s.logf("n%d started (incarnation %d)", n.idx, n.inc)
	s.out.Stat("node_starts", 1)
	if n.inc > 1 {
		s.out.Stat("node_restarts", 1)
	}
	n.joined = len(n.join) == 0
	if len(n.join) > 0 {
		srv := n.server
		inc := n.inc
		n.joinAct = s.now()
		go func() {
			runtimeVerifSetTag(n.id*1000 + uint64(inc))
			simrt.Y(0)
			err := srv.JoinCluster()
			s.post(func() {
				if n.inc != inc || !n.alive {
					return
				}
				s.logf("n%d JoinCluster -> %v", n.idx, err)
				n.joinAct = s.now()
				if err != nil {
					// cmd/anndb: log.Fatal(err) - the process exits during start-up
					s.out.Stat("startup_join_failed_process_exits", 1)
					s.stopNode(n, false)
					return
				}
				n.joined = true
			})
		}()
	}
	return nil
}

// stopNode takes a node down. crash=false is also a process kill as far as the
// data is concerned (nothing is flushed that was not durable: Badger's Close
// only persists what committed transactions already made durable); the
// difference is only that it happens at a quiescent instant.
func (s *Sim) stopNode(n *simNode, crash bool) {
	if !n.alive {
		return
	}
	n.alive = false
	n.joined = false
	n.dead[n.inc] = true
	p := n.parts
	if p == nil {
		return
	}
	// nothing of the dead incarnation may touch the log store any more
	for _, g := range p.RaftTransport.VerifGroups() {
		g.VerifKill()
		s.killedGroups[g] = true
	}
	s.deadTransports = append(s.deadTransports, p.RaftTransport)
	// The allocator goroutine is left alone: it is blocked, nothing of this
	// incarnation can wake it any more, and Allocator.Stop closes a channel
	// that an apply goroutine of the same incarnation may be blocked sending on.
	synctest.Wait()
	delete(s.byDB, p.DB)
	if !s.closing {
		s.dbClosed[p.DB] = true
		func() {
			defer func() { recover() }()
			p.DB.Close()
		}()
	}
	n.server.VerifForget()
	n.parts = nil
	if !s.closing {
		n.gone[n.inc] = true
	}
	// client requests that this incarnation was serving never get an answer
	live := s.clientOps[:0]
	for _, op := range s.clientOps {
		if op.done {
			continue
		}
		if op.node == n.idx && op.nodeInc == n.inc {
			s.seq++
			op.ret = s.seq
			op.err, op.done, op.lost = status.Error(codes.Unavailable, "node died before answering"), true, true
			s.logf("client n%d %s -> lost (the node went down)", n.idx, op.name)
			continue
		}
		live = append(live, op)
	}
	s.clientOps = live
	// calls that were executing on the process that is gone never answer
	var cut []*simCall
	for c, t := range s.inflight {
		if t == n {
			cut = append(cut, c)
		}
	}
	sort.Slice(cut, func(i, j int) bool { return cut[i].seq < cut[j].seq })
	for _, c := range cut {
		delete(s.inflight, c)
		if c.dupOf == nil {
			s.lost(c)
		}
	}
	s.logf("n%d down (crash=%v)", n.idx, crash)
	if crash {
		s.out.Stat("fault_crash", 1)
	}
}

// ---------------------------------------------------------------------------
// simulated disk boundary (hook H3)

func (s *Sim) ioHook(db *badger.DB, group uuid.UUID, op string, before bool) error {
	if op == "read" {
		// Reads only matter once an incarnation's database is closed: a goroutine of it
		// that is still around must not touch it. Until then (stopNode is still taking
		// the groups down, which needs their raft goroutines) reads go through.
		if _, known := s.dbInc[db]; !known || s.byDB[db] != nil {
			return nil
		}
		if s.stopped {
			runtime.Goexit()
		}
		s.park()
	}
	n := s.byDB[db]
	if n == nil {
		// database of a server that is still inside setup(): find by alive node without parts
		for _, c := range s.nodes {
			if c.alive && c.parts == nil {
				n = c
			}
		}
	}
	if n == nil || s.stopped {
		if s.stopped {
			runtime.Goexit() // the run is over: nothing is written any more
		}
		s.park() // write attempt of a dead incarnation: never happens
	}
	if inc, ok := s.dbInc[db]; ok && n.dead[inc] {
		s.park()
	}
	if s.onIO != nil {
		s.onIO(n, group, op, before)
	}
	if op == "save" {
		return nil // an empty Save writes nothing: crashing here equals crashing at quiescence
	}
	if before {
		n.hookHit++
	}
	if before && n.diskFullInc != 0 && n.diskFullInc == n.inc && (strings.HasPrefix(op, "save") || op == "snapshot") {
		// the disk stays full until somebody makes room (the process is restarted)
		s.out.Stat("fault_disk_error_repeated", 1)
		return syscall.ENOSPC
	}
	if before && n.errAt > 0 && (strings.HasPrefix(op, "save") || op == "snapshot") {
		n.errSeen++
		if n.errSeen >= n.errAt {
			// the disk refuses the write (full disk): nothing is written
			n.errAt, n.errSeen = 0, 0
			n.diskErrInc = n.inc
			if n.errStays {
				n.diskFullInc = n.inc
			}
			idx := n.idx
			s.out.Stat("fault_disk_error_"+op, 1)
			s.post(func() { s.logf("n%d: disk error injected at %s of group %s", idx, op, shortG(group)) })
			return syscall.ENOSPC
		}
	}
	if n.crashAt > 0 {
		// position numbering: boundary k "before" = 2k-1, "after" = 2k
		pos := 2*n.hookHit - 1
		if !before {
			pos = 2 * n.hookHit
		}
		if pos == n.crashAt {
			inc := n.inc
			n.dead[inc] = true
			side := "before"
			if !before {
				side = "after"
			}
			s.post(func() {
				s.logf("n%d crashes %s durable write #%d (%s of group %s)", n.idx, side, (pos+1)/2, op, shortG(group))
				s.out.Stat("fault_crash_"+side+"_"+op, 1)
				if n.inc == inc && n.alive {
					s.stopNode(n, true)
				}
			})
			s.park() // the process is gone
		}
	}
	return nil
}

// ---------------------------------------------------------------------------
// simulated network

func (s *Sim) dialOptions(c *cluster.Conn) []grpc.DialOption {
	from := c.Id()
	return []grpc.DialOption{
		grpc.WithContextDialer(func(ctx context.Context, addr string) (netConn, error) {
			return nil, fmt.Errorf("simulated network: no sockets")
		}),
		grpc.WithUnaryInterceptor(func(ctx context.Context, method string, req, reply interface{}, cc *grpc.ClientConn, invoker grpc.UnaryInvoker, opts ...grpc.CallOption) error {
			if cc.GetState() == connectivity.Shutdown {
				// what gRPC answers on a connection object that was closed (Conn.RemoveNode
				// closes the connection of a removed node; whoever kept a stub of it gets this)
				s.out.Stat("rpc_on_closed_connection", 1)
				return status.Error(codes.Canceled, "grpc: the client connection is closing")
			}
			call := s.newCall(ctx, from, cc.Target(), method, req.(proto.Message), false)
			if err := s.await(ctx, call); err != nil {
				return err
			}
			if len(call.resp) != 1 {
				return status.Error(codes.Internal, "simulated network: no response message")
			}
			return proto.Unmarshal(call.resp[0], reply.(proto.Message))
		}),
		grpc.WithStreamInterceptor(func(ctx context.Context, desc *grpc.StreamDesc, cc *grpc.ClientConn, method string, streamer grpc.Streamer, opts ...grpc.CallOption) (grpc.ClientStream, error) {
			if cc.GetState() == connectivity.Shutdown {
				s.out.Stat("rpc_on_closed_connection", 1)
				return nil, status.Error(codes.Canceled, "grpc: the client connection is closing")
			}
			return &simClientStream{s: s, ctx: ctx, from: from, target: cc.Target(), method: method}, nil
		}),
	}
}

func (s *Sim) newCall(ctx context.Context, from uint64, target, method string, req proto.Message, stream bool) *simCall {
	b, err := proto.Marshal(req)
	if err != nil {
		panic("harness: marshal request: " + err.Error())
	}
	c := &simCall{from: from, toAddr: target, method: method, req: b, reqType: reflect.TypeOf(req).Elem(), stream: stream, done: make(chan struct{})}
	if n := s.byId[from]; n != nil {
		c.fromInc = n.inc
	}
	if dl, ok := ctx.Deadline(); ok {
		c.deadline, c.hasDL = dl, true
	}
	// canonical sort key: sender, then the raft group (one run loop per group
	// sends its messages sequentially), then method; the posting order between
	// different senders / groups is not allowed to matter
	c.key = method
	if method == "/anndb_pb.RaftTransport/Receive" {
		if rm, ok := req.(*pb.RaftMessage); ok {
			c.key = "!" + string(rm.GetGroupId())
		}
	}
	s.mu.Lock()
	s.postSeq++
	c.post = s.postSeq
	s.calls = append(s.calls, c)
	s.mu.Unlock()
	return c
}

func (s *Sim) await(ctx context.Context, c *simCall) error {
	select {
	case <-c.done:
		return c.err
	case <-ctx.Done():
		s.mu.Lock()
		c.abandoned = true
		s.mu.Unlock()
		return status.FromContextError(ctx.Err()).Err()
	}
}

type simClientStream struct {
	s      *Sim
	ctx    context.Context
	from   uint64
	target string
	method string
	call   *simCall
	req    proto.Message
	pos    int
	waited bool
}

func (cs *simClientStream) Header() (metadata.MD, error) { return nil, nil }
func (cs *simClientStream) Trailer() metadata.MD         { return nil }
func (cs *simClientStream) Context() context.Context     { return cs.ctx }
func (cs *simClientStream) SendMsg(m interface{}) error {
	cs.req = m.(proto.Message)
	return nil
}
func (cs *simClientStream) CloseSend() error {
	if cs.call == nil && cs.req != nil {
		cs.call = cs.s.newCall(cs.ctx, cs.from, cs.target, cs.method, cs.req, true)
	}
	return nil
}
func (cs *simClientStream) RecvMsg(m interface{}) error {
	if cs.call == nil {
		return status.Error(codes.Internal, "simulated network: RecvMsg before CloseSend")
	}
	if !cs.waited {
		cs.waited = true
		if err := cs.s.await(cs.ctx, cs.call); err != nil {
			cs.call.err = err
		}
	}
	if cs.pos < len(cs.call.resp) {
		b := cs.call.resp[cs.pos]
		cs.pos++
		return proto.Unmarshal(b, m.(proto.Message))
	}
	if cs.call.err != nil {
		return cs.call.err
	}
	return io.EOF
}

// server side fake streams
type fakeServerStream struct {
	ctx  context.Context
	sent [][]byte
}

func (f *fakeServerStream) SetHeader(metadata.MD) error  { return nil }
func (f *fakeServerStream) SendHeader(metadata.MD) error { return nil }
func (f *fakeServerStream) SetTrailer(metadata.MD)       {}
func (f *fakeServerStream) Context() context.Context     { return f.ctx }
func (f *fakeServerStream) SendMsg(m interface{}) error {
	b, err := proto.Marshal(m.(proto.Message))
	if err != nil {
		return err
	}
	f.sent = append(f.sent, b)
	return nil
}
func (f *fakeServerStream) RecvMsg(m interface{}) error { return io.EOF }

type srvStreamItems struct{ *fakeServerStream }

func (x srvStreamItems) Send(m *pb.SearchResultItem) error { return x.SendMsg(m) }

type srvStreamDatasets struct{ *fakeServerStream }

func (x srvStreamDatasets) Send(m *pb.Dataset) error { return x.SendMsg(m) }

type srvStreamNodes struct{ *fakeServerStream }

func (x srvStreamNodes) Send(m *pb.Node) error { return x.SendMsg(m) }

// serve executes one RPC on the target node's real service object.
func (s *Sim) serve(n *simNode, ctx context.Context, method string, reqBytes []byte, reqType reflect.Type) (resp [][]byte, err error) {
	parts := strings.Split(strings.TrimPrefix(method, "/"), "/")
	if len(parts) != 2 {
		return nil, status.Error(codes.Unimplemented, method)
	}
	var svc interface{}
	switch parts[0] {
	case "anndb_pb.RaftTransport":
		svc = n.parts.RaftTransport
	case "anndb_pb.DataManager":
		svc = n.svcData
	case "anndb_pb.DatasetManager":
		svc = n.svcDM
	case "anndb_pb.Search":
		svc = n.svcSrch
	case "anndb_pb.NodesManager":
		svc = n.svcNM
	default:
		return nil, status.Error(codes.Unimplemented, method)
	}
	m := reflect.ValueOf(svc).MethodByName(parts[1])
	if !m.IsValid() {
		return nil, status.Error(codes.Unimplemented, method)
	}
	req := reflect.New(reqType)
	if err := proto.Unmarshal(reqBytes, req.Interface().(proto.Message)); err != nil {
		return nil, status.Error(codes.Internal, err.Error())
	}
	mt := m.Type()
	if mt.NumIn() == 2 && mt.In(0) == reflect.TypeOf((*context.Context)(nil)).Elem() {
		outs := m.Call([]reflect.Value{reflect.ValueOf(ctx), req})
		if e, _ := outs[1].Interface().(error); e != nil {
			return nil, toStatusErr(e)
		}
		b, merr := proto.Marshal(outs[0].Interface().(proto.Message))
		if merr != nil {
			return nil, status.Error(codes.Internal, merr.Error())
		}
		return [][]byte{b}, nil
	}
	// server streaming: (req, stream) error
	fs := &fakeServerStream{ctx: ctx}
	var st reflect.Value
	switch parts[0] + "/" + parts[1] {
	case "anndb_pb.Search/Search", "anndb_pb.Search/SearchPartitions":
		st = reflect.ValueOf(srvStreamItems{fs})
	case "anndb_pb.DatasetManager/List":
		st = reflect.ValueOf(srvStreamDatasets{fs})
	default:
		st = reflect.ValueOf(srvStreamNodes{fs})
	}
	outs := m.Call([]reflect.Value{req, st})
	if e, _ := outs[0].Interface().(error); e != nil {
		return fs.sent, toStatusErr(e)
	}
	return fs.sent, nil
}

// toStatusErr mirrors what a gRPC server does with a handler error: a plain
// error becomes codes.Unknown with the error text.
func toStatusErr(e error) error {
	if _, ok := status.FromError(e); ok {
		return e
	}
	if e == context.DeadlineExceeded || e == context.Canceled {
		return status.FromContextError(e).Err()
	}
	return status.Error(codes.Unknown, e.Error())
}

func protoUnmarshal(b []byte, m proto.Message) error { return proto.Unmarshal(b, m) }

func (s *Sim) linkUp(from uint64, to uint64) bool {
	return !s.blocked[[2]uint64{from, to}]
}

func (s *Sim) latency() time.Duration {
	c := s.cfg.Net
	min := c.MinLatMs
	if min == 0 {
		min = 1
	}
	d := time.Duration(min) * time.Millisecond
	if c.JitterMs > 0 {
		d += time.Duration(s.rnet.Intn(c.JitterMs*1000)) * time.Microsecond
	}
	return d
}

func (s *Sim) finish(c *simCall, resp [][]byte, err error) {
	if c.dupOf != nil {
		return
	}
	select {
	case <-c.done:
		return
	default:
	}
	c.resp, c.err = resp, err
	close(c.done)
}

// lost: a message of call c vanished. A caller with a deadline notices by
// itself; one without (the join handshake) would hang forever on a silent
// network, whereas a real transport eventually reports the dead connection.
func (s *Sim) lost(c *simCall) {
	if c.hasDL || c.dupOf != nil {
		return
	}
	s.at(20*time.Second, "conn-timeout", func() {
		s.finish(c, nil, status.Error(codes.Unavailable, "simulated network: connection timed out"))
	})
}

// route decides the fate of a new call (driver goroutine).
func (s *Sim) route(c *simCall) {
	s.rpcCount[c.method]++
	isRaft := c.method == "/anndb_pb.RaftTransport/Receive"
	var rm raftpb.Message
	var group uuid.UUID
	if isRaft {
		var m pb.RaftMessage
		if proto.Unmarshal(c.req, &m) == nil {
			group, _ = uuid.FromBytes(m.GetGroupId())
			rm.Unmarshal(m.GetMessage())
		}
		if src := s.byId[c.from]; src != nil && s.onRaftMsg != nil && src.alive && src.inc == c.fromInc {
			s.onRaftMsg(src, rm.To, group, rm)
		}
		s.out.Stat("raft_messages", 1)
		if os.Getenv("VERIF_DEBUG") == "2" {
			s.logf("raft#%d n%d->n%d g=%s %s term=%d idx=%d logterm=%d commit=%d ents=%d rej=%v", c.seq, s.nodeIdx(c.from), s.nodeIdx(rm.To), shortG(group), rm.Type, rm.Term, rm.Index, rm.LogTerm, rm.Commit, len(rm.Entries), rm.Reject)
		}
	} else {
		s.logf("rpc#%d n%d -> %s %s", c.seq, s.nodeIdx(c.from), c.toAddr, c.method)
	}
	if src := s.byId[c.from]; src != nil && (!src.alive || src.inc != c.fromInc) {
		return // message of a dead incarnation never leaves
	}
	tgt := s.byAddr[c.toAddr]
	faults := s.faultsOn
	fail := func(code codes.Code, why string) {
		s.at(s.latency(), "fail", func() { s.finish(c, nil, status.Error(code, "simulated network: "+why)) })
	}
	if tgt == nil {
		if os.Getenv("VERIF_DEBUG") == "2" {
			s.logf("#%d n%d -> %s: no such address", c.seq, s.nodeIdx(c.from), c.toAddr)
		}
		fail(codes.Unavailable, "no such address "+c.toAddr)
		s.out.Stat("net_unknown_address", 1)
		return
	}
	if !tgt.alive || tgt.parts == nil {
		if s.rnet.Bool(0.5) {
			fail(codes.Unavailable, "connection refused")
		} else { // black hole until the caller's deadline
			s.lost(c)
		}
		s.out.Stat("net_target_down", 1)
		return
	}
	if !s.linkUp(c.from, tgt.id) {
		s.out.Stat("fault_partition_blocked_message", 1)
		if s.rnet.Bool(0.3) {
			fail(codes.Unavailable, "partitioned")
		} else {
			s.lost(c)
		}
		return
	}
	if faults && s.rnet.Bool(s.cfg.Net.DropReq) {
		s.out.Stat("fault_drop_request", 1)
		if !isRaft {
			s.logf("rpc#%d request dropped", c.seq)
		}
		s.lost(c)
		return
	}
	d := s.latency()
	if faults && s.rnet.Bool(s.cfg.Net.Late) {
		d += time.Duration(500+s.rnet.Intn(2500)) * time.Millisecond
		s.out.Stat("fault_late_delivery", 1)
	}
	s.at(d, "deliver", func() { s.deliver(c, tgt, tgt.inc, isRaft) })
	// Duplicates: every raft message type except a forwarded proposal. gRPC over
	// TCP never delivers a request twice; raft tolerates duplicates of its own
	// retransmittable messages, but a duplicated MsgProp is simply proposed (and
	// applied) twice, which no property of this code base forbids or prevents.
	if faults && isRaft && rm.Type != raftpb.MsgProp && s.rnet.Bool(s.cfg.Net.Dup) {
		dup := &simCall{seq: c.seq, from: c.from, fromInc: c.fromInc, toAddr: c.toAddr, method: c.method, req: c.req, reqType: c.reqType, done: make(chan struct{}), dupOf: c}
		s.at(d+s.latency()+time.Duration(s.rnet.Intn(300))*time.Millisecond, "deliver-dup", func() { s.deliver(dup, tgt, tgt.inc, true) })
		s.out.Stat("fault_duplicate_raft_message", 1)
	}
}

func (s *Sim) deliver(c *simCall, tgt *simNode, inc int, isRaft bool) {
	if !tgt.alive || tgt.inc != inc || tgt.parts == nil {
		s.lost(c)
		return
	}
	if !s.linkUp(c.from, tgt.id) {
		s.out.Stat("fault_partition_blocked_message", 1)
		s.lost(c)
		return
	}
	ctx := context.Background()
	var cancel context.CancelFunc = func() {}
	if c.hasDL {
		ctx, cancel = context.WithDeadline(ctx, c.deadline)
	}
	c.executed = true
	s.inflight[c] = tgt
	go func() {
		defer cancel()
		runtimeVerifSetTag(tgt.id*1000 + uint64(inc))
		resp, err := s.serve(tgt, ctx, c.method, c.req, c.reqType)
		s.post(func() {
			if _, ok := s.inflight[c]; !ok {
				return // the serving process went down while the call was executing: already failed
			}
			delete(s.inflight, c)
			if c.dupOf != nil {
				return
			}
			if c.method == "/anndb_pb.Search/SearchPartitions" {
				s.recordSearchLeg(c, tgt, resp, err)
			}
			if c.method == "/anndb_pb.DataManager/PartitionInfo" {
				var req pb.PartitionInfoRequest
				proto.Unmarshal(c.req, &req)
				loaded := false
				if tgt.parts != nil {
					if ds, ok := tgt.parts.DatasetManager.VerifDatasets(); ok {
						for _, d := range ds {
							for _, p := range d.Partitions {
								if string(p.Id.Bytes()) == string(req.GetPartitionId()) && p.RaftLoaded {
									loaded = true
								}
							}
						}
					}
				}
				s.infoLegs = append(s.infoLegs, infoLeg{to: tgt.idx, partition: req.GetPartitionId(), ok: err == nil, loaded: loaded})
			}
			if !tgt.alive || tgt.inc != inc {
				s.lost(c)
				return // the answering incarnation died: the response never leaves
			}
			if !s.linkUp(tgt.id, c.from) {
				s.out.Stat("fault_partition_blocked_message", 1)
				s.lost(c)
				return
			}
			if s.faultsOn && s.rnet.Bool(s.cfg.Net.DropResp) {
				s.out.Stat("fault_drop_response", 1)
				if !isRaft {
					s.logf("rpc#%d response dropped (request was executed)", c.seq)
				}
				s.lost(c)
				return
			}
			if s.faultsOn && c.stream && err == nil && len(resp) > 0 && s.rnet.Bool(s.cfg.Net.CutStream) {
				// the stream breaks off after some of its messages: the receiver gets a prefix and an error
				resp = resp[:s.rnet.Intn(len(resp))]
				err = status.Error(codes.Unavailable, "simulated network: stream reset")
				s.out.Stat("fault_stream_cut", 1)
			}
			s.at(s.latency(), "respond", func() {
				if !isRaft {
					s.logf("rpc#%d done err=%v n=%d", c.seq, err, len(resp))
				}
				s.finish(c, resp, err)
			})
		})
	}()
}

func (s *Sim) recordSearchLeg(c *simCall, tgt *simNode, resp [][]byte, err error) {
	var req pb.SearchPartitionsRequest
	proto.Unmarshal(c.req, &req)
	leg := searchLeg{from: c.from, to: tgt.id, req: &req, err: err, callId: c.seq}
	for _, b := range resp {
		var it pb.SearchResultItem
		if proto.Unmarshal(b, &it) == nil {
			leg.items = append(leg.items, &it)
		}
	}
	s.searchLegs = append(s.searchLegs, leg)
}

// ---------------------------------------------------------------------------
// driver

// pump processes everything product goroutines posted since the last call.
func (s *Sim) pump() {
	for {
		synctest.Wait()
		s.mu.Lock()
		inbox, calls := s.inbox, s.calls
		s.inbox, s.calls = nil, nil
		s.mu.Unlock()
		if len(inbox) == 0 && len(calls) == 0 {
			return
		}
		for _, fn := range inbox {
			fn()
		}
		sort.SliceStable(calls, func(i, j int) bool {
			if calls[i].from != calls[j].from {
				return calls[i].from < calls[j].from
			}
			if calls[i].key != calls[j].key {
				return calls[i].key < calls[j].key
			}
			return calls[i].post < calls[j].post
		})
		for _, c := range calls {
			s.seq++
			c.seq = s.seq
			s.route(c)
		}
	}
}

const simQuantum = 10 * time.Millisecond

var ytrace []string

func goid() int {
	var buf [40]byte
	n := runtime.Stack(buf[:], false)
	f := strings.Fields(string(buf[:n]))
	if len(f) > 1 {
		id, _ := strconv.Atoi(f[1])
		return id
	}
	return 0
}

var heapSample = []metrics.Sample{{Name: "/memory/classes/heap/objects:bytes"}}

// maybeGC collects garbage at an instant at which every other goroutine of the bubble
// is durably blocked. Opening a Badger database allocates some 350 MB (mostly never
// touched); leaving that to the collector's own pacing would start collections at
// arbitrary instants of the run, and a collection in flight preempts and reorders
// goroutines as a function of real time.
func (s *Sim) maybeGC(force bool) {
	if !force {
		metrics.Read(heapSample)
		if heapSample[0].Value.Uint64() < s.gcNext {
			return
		}
	}
	runtime.GC()
	metrics.Read(heapSample)
	s.gcNext = heapSample[0].Value.Uint64() + 768<<20
	s.gcs++
}

// reapZombies stops raft groups that a goroutine of a crashed incarnation
// started after the crash (e.g. an allocator that was waiting for a lock): the
// incarnation's database is closed, nothing of it may run a raft loop.
func (s *Sim) reapZombies() {
	for _, t := range s.deadTransports {
		for _, g := range t.VerifGroups() {
			if !s.killedGroups[g] {
				// not waited for: the group's raft goroutine may already be parked at a read
				go g.VerifKill()
				s.killedGroups[g] = true
				s.out.Stat("zombie_groups_reaped", 1)
			}
		}
	}
}

// step advances the simulation by one event (or one quantum of idle time).
func (s *Sim) step() {
	s.steps++
	s.pump()
	if s.steps%32 == 0 {
		s.maybeGC(false)
	}
	if len(s.deadTransports) > 0 {
		s.reapZombies()
	}
	if len(s.events) == 0 {
		time.Sleep(simQuantum)
		return
	}
	now := s.now()
	next := s.events[0].at
	if next > now {
		d := next - now
		if d > simQuantum {
			d = simQuantum
		}
		time.Sleep(d)
		return
	}
	ev := s.popEvent()
	ev.fn()
	s.burst()
}

// withSchedKnobs wraps a generator of World III cases: after the case is drawn, the
// scheduling knobs Burst and Deep of its W3Cfg ("cfg" at the top level or under "w3")
// are drawn from a stream split off the generator's, unless the generator set them.
func withSchedKnobs(gen func(*simrt.Rand, string) json.RawMessage) func(*simrt.Rand, string) json.RawMessage {
	return func(r *simrt.Rand, tier string) json.RawMessage {
		raw := gen(r, tier)
		rr := r.Split("sched-knobs")
		dec := json.NewDecoder(bytes.NewReader(raw))
		dec.UseNumber()
		var m map[string]interface{}
		if dec.Decode(&m) != nil {
			return raw
		}
		holder := m
		if w3, ok := m["w3"].(map[string]interface{}); ok {
			holder = w3
		}
		cfg, ok := holder["cfg"].(map[string]interface{})
		if !ok {
			return raw
		}
		if _, set := cfg["burst"]; set {
			return raw
		}
		if _, set := cfg["deep"]; set {
			return raw
		}
		if b := []int{0, 0, 20, 50}[rr.Intn(4)]; b > 0 {
			cfg["burst"] = b
		}
		if d := []int{0, 0, 40, 160}[rr.Intn(4)]; d > 0 {
			cfg["deep"] = d
		}
		out, err := json.Marshal(m)
		if err != nil {
			return raw
		}
		return out
	}
}

// incOfCaller: the incarnation of node n the calling goroutine belongs to (goroutines carry
// the label node*1000+incarnation of whoever started them; a goroutine of a crashed
// incarnation can still be on its way to its parking place when the next one is up).
func (s *Sim) incOfCaller(n *simNode) int {
	if n == nil {
		return 0
	}
	if tag := runtimeVerifGetTag(); tag/1000 == n.id {
		return int(tag % 1000)
	}
	return n.inc
}

// burst: several stimuli at (nearly) the same instant. With the per-run probability
// cfg.Burst, whatever else is due within the next 2 ms is started now as well, before
// anybody runs; the handlers are then runnable together and the seeded scheduler
// interleaves them at the yield points. (Delivering a message a little earlier than
// drawn is a latency the network could have had.)
func (s *Sim) burst() {
	if s.cfg.Burst <= 0 || s.rburst.Intn(100) >= s.cfg.Burst {
		return
	}
	now := s.now()
	k := 0
	for len(s.events) > 0 && s.events[0].at <= now+2*time.Millisecond && k < 3 {
		s.popEvent().fn()
		k++
	}
	if k > 0 {
		s.out.Stat("bursts_of_concurrent_stimuli", 1)
	}
}

// runUntil drives the simulation until cond() holds or max simulated time passed.
func (s *Sim) runUntil(cond func() bool, max time.Duration) bool {
	deadline := s.now() + max
	for {
		s.pump()
		if cond != nil && cond() {
			return true
		}
		if s.now() >= deadline {
			return false
		}
		s.step()
	}
}

func (s *Sim) runFor(d time.Duration) { s.runUntil(nil, d) }

// ---------------------------------------------------------------------------
// client operations (the harness acting as an external gRPC client of a node)

type clientOp struct {
	id       int
	node     int
	name     string
	inv, ret uint64 // global event numbers
	done     bool
	err      error
	res      interface{}
	nodeInc  int
	lost     bool // the node died before answering: outcome unknown
}

func (s *Sim) stamp() uint64 { s.seq++; return s.seq }

// client runs fn against node n's service objects on its own goroutine.
func (s *Sim) client(n *simNode, name string, timeout time.Duration, fn func(ctx context.Context, n *simNode) (interface{}, error)) *clientOp {
	op := &clientOp{node: n.idx, name: name, nodeInc: n.inc}
	s.mu.Lock()
	s.seq++
	op.inv = s.seq
	s.mu.Unlock()
	if !n.alive || n.parts == nil {
		op.done, op.err = true, status.Error(codes.Unavailable, "node is down")
		op.ret = op.inv
		return op
	}
	s.logf("client n%d %s", n.idx, name)
	s.clientOps = append(s.clientOps, op)
	go func() {
		runtimeVerifSetTag(n.id*1000 + uint64(op.nodeInc))
		simrt.Y(0)
		ctx, cancel := context.WithTimeout(context.Background(), timeout)
		defer cancel()
		var res interface{}
		var err error
		func() {
			res, err = fn(ctx, n)
		}()
		s.post(func() {
			if op.done {
				return // the node went down while the request was being served: already accounted for
			}
			s.seq++
			op.ret = s.seq
			op.res, op.err, op.done = res, err, true
			if !n.alive || n.inc != op.nodeInc {
				op.lost = true
			}
			s.logf("client n%d %s -> err=%v", n.idx, name, err)
		})
	}()
	s.burst() // a client request may arrive together with whatever the network is about to deliver
	return op
}

// ---------------------------------------------------------------------------
// raft status helpers

func (s *Sim) leaderOf(group uuid.UUID) (leader *simNode, term uint64) {
	for _, n := range s.nodes {
		if !n.alive || n.parts == nil {
			continue
		}
		for _, g := range n.parts.RaftTransport.VerifGroups() {
			if g.VerifId() == group {
				st := g.VerifStatus()
				if st.RaftState == etcdraft.StateLeader && st.Term >= term {
					leader, term = n, st.Term
				}
			}
		}
	}
	return
}

func (s *Sim) groupOn(n *simNode, group uuid.UUID) *raft.RaftGroup {
	if n.parts == nil {
		return nil
	}
	for _, g := range n.parts.RaftTransport.VerifGroups() {
		if g.VerifId() == group {
			return g
		}
	}
	return nil
}
