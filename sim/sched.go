package anndbverif

// Token scheduler of World I (concurrent part). Exactly one worker goroutine
// runs at a time; at every synchronisation point of package index (rewrite
// R1/R3: simulated mutexes, yields before sync/atomic statements) the running
// worker asks the scheduler, which draws from the `sched` stream who runs
// next. A worker waiting for a simulated lock is not runnable; all workers
// blocked is a deadlock.
//
// The hand-off between goroutines uses raw read(2)/write(2) on pipes and the
// scheduler's own state is touched only from //go:norace functions, so that
// the race detector (second leg of C13) sees exactly the synchronisation the
// program under test performs itself and nothing added by the harness.

import (
	"fmt"
	"runtime/debug"
	"sync/atomic"
	"syscall"
	"time"
	"unsafe"

	"simrt"
)

const (
	wRunnable = 0
	wBlocked  = 1
	wDone     = 2
)

type tokSched struct {
	n         int
	state     []int
	blockedOn []unsafe.Pointer
	prio      []int
	rfd, wfd  []int // per worker; index n is the main goroutine
	cur       int
	rng       uint64
	seq       uint64
	policy    int // 0 random switch with probability p/256, 1 PCT
	p         int
	change    []uint64 // PCT priority change points (step numbers)
	steps     uint64
	switches  uint64
	blocks    uint64
	deadlock  bool
	active    bool
	trace     uint64 // hash of the schedule (who ran at each decision)
	maxSteps  uint64
	runaway   bool
	abandoned bool  // the run was given up (deadlock): workers that wake up park for good
	parked    int32 // workers that have done so
}

// afterWake: a worker that wakes up in an abandoned run parks on a Go-level
// wait (which holds no OS thread, unlike the raw read it was in) and never
// returns.
//
//go:norace
func (s *tokSched) afterWake() {
	if s.abandoned {
		atomic.AddInt32(&s.parked, 1)
		select {}
	}
}

// abandon gives a deadlocked run up: every worker that is not done is woken,
// parks for good, and only then are the pipes closed (a worker still inside
// read(2) on a closed and reused descriptor could steal the next run's token).
//
//go:norace
func (s *tokSched) abandon() {
	s.abandoned = true
	waiting := int32(0)
	for i := 0; i < s.n; i++ {
		if s.state[i] != wDone {
			waiting++
			rawWrite(s.wfd[i])
		}
	}
	for i := 0; atomic.LoadInt32(&s.parked) < waiting && i < 200000; i++ {
		time.Sleep(20 * time.Microsecond)
	}
	if atomic.LoadInt32(&s.parked) == waiting {
		s.close()
	}
}

var sched *tokSched

//go:norace
func (s *tokSched) next() uint64 {
	s.rng += 0x9e3779b97f4a7c15
	z := s.rng
	z = (z ^ (z >> 30)) * 0xbf58476d1ce4e5b9
	z = (z ^ (z >> 27)) * 0x94d049bb133111eb
	return z ^ (z >> 31)
}

//go:norace
func rawWrite(fd int) {
	var b [1]byte
	for {
		_, _, e := syscall.Syscall(syscall.SYS_WRITE, uintptr(fd), uintptr(unsafe.Pointer(&b[0])), 1)
		if e != syscall.EINTR {
			return
		}
	}
}

//go:norace
func rawRead(fd int) {
	var b [1]byte
	for {
		_, _, e := syscall.Syscall(syscall.SYS_READ, uintptr(fd), uintptr(unsafe.Pointer(&b[0])), 1)
		if e != syscall.EINTR {
			return
		}
	}
}

func newTokSched(n int, seed uint64, policy, p int, estSteps int) *tokSched {
	s := &tokSched{n: n, rng: seed, policy: policy, p: p, maxSteps: 2000000}
	s.state = make([]int, n)
	s.blockedOn = make([]unsafe.Pointer, n)
	s.prio = make([]int, n)
	s.rfd = make([]int, n+1)
	s.wfd = make([]int, n+1)
	for i := 0; i <= n; i++ {
		var fds [2]int
		if err := syscall.Pipe(fds[:]); err != nil {
			panic("harness: pipe: " + err.Error())
		}
		s.rfd[i], s.wfd[i] = fds[0], fds[1]
	}
	perm := make([]int, n)
	for i := range perm {
		perm[i] = i
	}
	for i := n - 1; i > 0; i-- {
		j := int(s.next() % uint64(i+1))
		perm[i], perm[j] = perm[j], perm[i]
	}
	for i, w := range perm {
		s.prio[w] = 1000 + i
	}
	if policy == 1 {
		for i := 0; i < p; i++ {
			s.change = append(s.change, s.next()%uint64(estSteps+1))
		}
	}
	return s
}

// runGuarded executes a sequential piece of work on one worker under the token
// scheduler, so that a self-deadlock of the code under test (a lock taken twice on one
// path) is an observation - all workers blocked - instead of a hang of the harness. A
// panic of the work is re-raised in the caller.
func runGuarded(fn func()) (deadlocked bool) {
	s := newTokSched(1, 1, 0, 0, 1000)
	prevMode := simrt.Mode()
	sched = s
	// (the hooks stay installed afterwards: they do nothing outside token mode, and not
	// writing them again keeps the race detector's view of these globals quiet)
	simrt.YieldFn, simrt.BlockFn, simrt.WakeFn = schedYield, schedBlock, schedWake
	simrt.SetMode(simrt.ModeToken)
	var pv interface{}
	var stack []byte
	joined := make(chan struct{})
	go func() {
		// (a real happens-before edge from the end of the work to the caller: the token
		// hand-off is invisible to the race detector on purpose, but what a sequential
		// phase did does precede whatever the caller starts afterwards)
		defer close(joined)
		schedWorkerStart(0)
		defer schedWorkerDone(0)
		defer func() {
			if r := recover(); r != nil {
				pv, stack = r, debug.Stack()
			}
		}()
		fn()
	}()
	s.run()
	if s.deadlock {
		simrt.SetMode(prevMode)
		s.abandon()
		sched = nil
		return true
	}
	<-joined
	simrt.SetMode(prevMode)
	s.close()
	sched = nil
	if pv != nil {
		panic(fmt.Sprintf("%v\n%s", pv, stack))
	}
	return false
}

// describeBlocked: how many workers wait for which lock (for the message of a deadlock).
func (s *tokSched) describeBlocked() string {
	by := map[unsafe.Pointer]int{}
	for i := 0; i < s.n; i++ {
		if s.state[i] == wBlocked {
			by[s.blockedOn[i]]++
		}
	}
	return fmt.Sprintf("%d distinct locks waited for", len(by))
}

func (s *tokSched) close() {
	for i := range s.rfd {
		syscall.Close(s.rfd[i])
		syscall.Close(s.wfd[i])
	}
}

// pick chooses the next runnable worker (-1 if none).
//
//go:norace
func (s *tokSched) pick(self int, mayStay bool) int {
	if s.policy == 1 {
		best := -1
		for i := 0; i < s.n; i++ {
			if s.state[i] == wRunnable && (best < 0 || s.prio[i] > s.prio[best]) {
				best = i
			}
		}
		return best
	}
	cnt := 0
	for i := 0; i < s.n; i++ {
		if s.state[i] == wRunnable {
			cnt++
		}
	}
	if cnt == 0 {
		return -1
	}
	if mayStay && self >= 0 && s.state[self] == wRunnable && int(s.next()%256) >= s.p {
		return self
	}
	k := int(s.next() % uint64(cnt))
	for i := 0; i < s.n; i++ {
		if s.state[i] == wRunnable {
			if k == 0 {
				return i
			}
			k--
		}
	}
	return -1
}

// transfer hands the token from self to j and parks self (unless j == self).
//
//go:norace
func (s *tokSched) transfer(self, j int) {
	s.trace = (s.trace ^ uint64(j+1)) * 0x100000001b3
	if j == self {
		return
	}
	s.switches++
	s.cur = j
	rawWrite(s.wfd[j])
	rawRead(s.rfd[self])
	s.afterWake()
}

//go:norace
func schedYield(site int) {
	s := sched
	if s == nil || !s.active {
		return
	}
	self := s.cur
	s.steps++
	if s.steps > s.maxSteps {
		s.runaway = true
	}
	if s.policy == 1 {
		for _, c := range s.change {
			if c == s.steps {
				s.prio[self] = int(s.steps%1000) - 1000 // drop below everyone
			}
		}
	}
	j := s.pick(self, true)
	if j < 0 {
		return
	}
	s.transfer(self, j)
}

//go:norace
func schedBlock(key interface{}) {
	s := sched
	self := s.cur
	s.blocks++
	s.state[self] = wBlocked
	s.blockedOn[self] = (*[2]unsafe.Pointer)(unsafe.Pointer(&key))[1]
	j := s.pick(self, false)
	if j < 0 {
		// every worker waits for a lock: deadlock. Wake the main goroutine and park forever.
		s.deadlock = true
		s.cur = s.n
		rawWrite(s.wfd[s.n])
		rawRead(s.rfd[self])
		s.afterWake()
		return
	}
	s.transfer(self, j)
}

//go:norace
func schedWake(key interface{}) {
	s := sched
	if s == nil || !s.active {
		return
	}
	k := (*[2]unsafe.Pointer)(unsafe.Pointer(&key))[1]
	for i := 0; i < s.n; i++ {
		if s.state[i] == wBlocked && s.blockedOn[i] == k {
			s.state[i] = wRunnable
			s.blockedOn[i] = nil
		}
	}
}

// stamp returns the next global event sequence number.
//
//go:norace
func schedStamp() uint64 {
	s := sched
	s.seq++
	return s.seq
}

// workerStart parks the calling worker until it is given the token.
//
//go:norace
func schedWorkerStart(i int) {
	s := sched
	rawRead(s.rfd[i])
	s.afterWake()
}

// workerDone marks the worker finished and passes the token on (to the main
// goroutine when nobody is runnable).
//
//go:norace
func schedWorkerDone(i int) {
	s := sched
	s.state[i] = wDone
	j := s.pick(-1, false)
	if j < 0 {
		alldone := true
		for k := 0; k < s.n; k++ {
			if s.state[k] != wDone {
				alldone = false
			}
		}
		if !alldone {
			s.deadlock = true
		}
		s.cur = s.n
		rawWrite(s.wfd[s.n])
		return
	}
	s.trace = (s.trace ^ uint64(j+1)) * 0x100000001b3
	s.cur = j
	rawWrite(s.wfd[j])
}

// run starts the schedule from the main goroutine and returns when all
// workers are done or a deadlock was detected.
//
//go:norace
func (s *tokSched) run() {
	s.active = true
	j := s.pick(-1, false)
	if j >= 0 {
		s.cur = j
		rawWrite(s.wfd[j])
		rawRead(s.rfd[s.n])
	}
	s.active = false
}
