package anndbverif

import (
	"math/rand"
	_ "unsafe" // go:linkname
)

// Provided by the runtime overlay (/verif/tools/mkoverlay.py): seeds the
// stream that decides select poll order and map seeds / iteration offsets.
//
//go:linkname runtimeVerifSetSeed runtime.verifSetSeed
func runtimeVerifSetSeed(s uint64)

// seedRuntime puts every source of runtime randomness the harness owns under
// the given seed: runtime (select, maps) and the global math/rand source
// (HNSW levels, replica choice, allocator shuffle).
func seedRuntime(seed uint64) {
	if seed == 0 {
		seed = 1
	}
	runtimeVerifSetSeed(seed)
	rand.Seed(int64(seed & 0x7fffffffffffffff))
}

//go:linkname runtimeVerifGetTag runtime.verifGetTag
func runtimeVerifGetTag() uint64

//go:linkname runtimeVerifSetTag runtime.verifSetTag
func runtimeVerifSetTag(t uint64)

//go:linkname runtimeVerifNextCount runtime.verifNextCount
func runtimeVerifNextCount() uint64

// withTag runs fn with the calling goroutine labelled t (goroutines started
// by fn inherit the label).
func withTag(t uint64, fn func()) {
	old := runtimeVerifGetTag()
	runtimeVerifSetTag(t)
	defer runtimeVerifSetTag(old)
	fn()
}
