package anndbverif

// World I, concurrent part: C13. K workers run Insert / Remove / Get / Len /
// Search on one index under the token scheduler (sched.go).

import (
	"context"
	"encoding/json"
	"fmt"
	"math"
	"os"
	"regexp"
	"runtime/debug"
	"sort"
	"strings"
	"sync"
	"time"

	"github.com/anishathalye/porcupine"
	"github.com/marekgalovic/anndb/index"
	amath "github.com/marekgalovic/anndb/math"

	"simrt"
)

type COp struct {
	K   string    `json:"k"` // ins rem get len search
	Id  int       `json:"id,omitempty"`
	Ver int       `json:"ver,omitempty"` // ins: unique version number, encoded in the vector
	Vec []float32 `json:"vec,omitempty"`
	Lvl int       `json:"lvl,omitempty"`
	N   int       `json:"n,omitempty"`
}

type ConcCase struct {
	Cfg     IdxCfg  `json:"cfg"`
	Pre     []COp   `json:"pre,omitempty"` // sequential prefix (initial contents)
	Workers [][]COp `json:"workers"`
	Seed    uint64  `json:"sched_seed"`
	Policy  int     `json:"policy"` // 0 random switch, 1 PCT
	P       int     `json:"p"`      // switch probability /256, or number of PCT change points
	Profile string  `json:"profile"`
	Final   []COp   `json:"final,omitempty"` // searches at quiescence
}

func genC13(r *simrt.Rand, tier string) json.RawMessage {
	cfg := genIdxCfg(r)
	cfg.Dim = r.Range(2, 4)
	if cfg.Space == 3 {
		cfg.Space = 1
	}
	c := ConcCase{Cfg: cfg, Seed: r.Uint64(), Policy: r.Intn(2)}
	if c.Policy == 0 {
		c.P = []int{8, 40, 128, 256}[r.Intn(4)]
	} else {
		c.P = r.Range(1, 3)
	}
	nIds := r.Range(3, 10)
	ver := 0
	mkIns := func(id int) COp {
		ver++
		v := genVec(r, cfg.Dim, false, false)
		v[0] = float32(ver) // unique, exactly representable: attributes a result to one insert
		lvl := 0
		if r.Bool(0.3) {
			lvl = r.Range(1, 3)
		}
		return COp{K: "ins", Id: id, Ver: ver, Vec: v, Lvl: lvl}
	}
	for i := 0; i < nIds; i++ {
		if r.Bool(0.5) {
			c.Pre = append(c.Pre, mkIns(i))
		}
	}
	k := r.Range(2, 5)
	c.Profile = []string{"many-writers", "one-writer-many-readers", "one-writer-many-readers", "many-inserters", "churn-near-empty"}[r.Intn(5)]
	if c.Profile == "churn-near-empty" {
		// two or three writers on two or three ids, the index starts with one item: it drops to
		// zero items and comes back all the time (the last item removed while another is inserted)
		nIds = r.Range(2, 3)
		c.Pre = []COp{mkIns(0)}
		k = r.Range(2, 3)
		for w := 0; w < k; w++ {
			var ops []COp
			for i, n := 0, r.Range(2, 6); i < n; i++ {
				id := r.Intn(nIds)
				if r.Bool(0.5) {
					ops = append(ops, mkIns(id))
				} else {
					ops = append(ops, COp{K: "rem", Id: id})
				}
			}
			c.Workers = append(c.Workers, ops)
		}
		for i := 0; i < 2; i++ {
			c.Final = append(c.Final, COp{K: "search", Vec: genVec(r, cfg.Dim, false, false), N: 3})
		}
		b, _ := json.Marshal(c)
		return b
	}
	for w := 0; w < k; w++ {
		n := r.Range(2, 10)
		var ops []COp
		writer := c.Profile != "one-writer-many-readers" || w == 0
		for i := 0; i < n; i++ {
			x := r.Intn(100)
			switch {
			case writer && x < 40:
				ops = append(ops, mkIns(r.Intn(nIds)))
			case writer && x < 70 && c.Profile != "many-inserters":
				ops = append(ops, COp{K: "rem", Id: r.Intn(nIds)})
			case x < 80:
				ops = append(ops, COp{K: "get", Id: r.Intn(nIds)})
			case x < 86:
				ops = append(ops, COp{K: "len"})
			default:
				q := genVec(r, cfg.Dim, false, false)
				ops = append(ops, COp{K: "search", Vec: q, N: []int{1, 3, 10}[r.Intn(3)]})
			}
		}
		c.Workers = append(c.Workers, ops)
	}
	for i := 0; i < 3; i++ {
		c.Final = append(c.Final, COp{K: "search", Vec: genVec(r, cfg.Dim, false, false), N: []int{1, 3, 20}[r.Intn(3)]})
	}
	b, _ := json.Marshal(c)
	return b
}

type cEvent struct {
	w        int
	op       COp
	inv, ret uint64
	ok       bool    // ins/rem: succeeded; get: found
	ver      int     // get: version found
	n        int     // len result
	res      []cItem // search
	panicked string
}

type cItem struct {
	id    int
	score float32
}

// per-id set model for porcupine
type setIn struct {
	op  int // 0 ins 1 rem 2 get
	id  int
	ver int
}
type setOut struct {
	ok  bool
	ver int
}

var setModel = porcupine.Model{
	Partition: func(history []porcupine.Operation) [][]porcupine.Operation {
		m := map[int][]porcupine.Operation{}
		var ids []int
		for _, o := range history {
			id := o.Input.(setIn).id
			if _, ok := m[id]; !ok {
				ids = append(ids, id)
			}
			m[id] = append(m[id], o)
		}
		sort.Ints(ids)
		out := make([][]porcupine.Operation, 0, len(ids))
		for _, id := range ids {
			out = append(out, m[id])
		}
		return out
	},
	Init: func() interface{} { return -1 },
	Step: func(state, input, output interface{}) (bool, interface{}) {
		st := state.(int)
		in := input.(setIn)
		out := output.(setOut)
		switch in.op {
		case 0:
			if st == -1 {
				return out.ok, in.ver
			}
			return !out.ok, st
		case 1:
			if st != -1 {
				return out.ok, -1
			}
			return !out.ok, st
		default:
			if st == -1 {
				return !out.ok, st
			}
			return out.ok && out.ver == st, st
		}
	},
	DescribeOperation: func(input, output interface{}) string {
		in := input.(setIn)
		out := output.(setOut)
		return fmt.Sprintf("%s(id#%d v%d) -> ok=%v v%d", []string{"ins", "rem", "get"}[in.op], in.id, in.ver, out.ok, out.ver)
	},
}

func execC13(raw json.RawMessage, wantLog bool) (out Outcome) {
	var c ConcCase
	if err := json.Unmarshal(raw, &c); err != nil {
		out.Harness = err.Error()
		return
	}
	simrt.SetMode(simrt.ModePlain)
	simrt.SetOrder(c.Cfg.OrderSeed, c.Cfg.OrderMode)
	idx := newIndex(c.Cfg)
	sp := newSpace(c.Cfg.Space)
	idByUUID := map[[16]byte]int{}
	maxId := 0
	noteId := func(id int) {
		idByUUID[idOf(id)] = id
		if id > maxId {
			maxId = id
		}
	}
	versions := map[int][]COp{} // id -> inserts
	var events []cEvent
	var seq uint64
	// sequential prefix (guarded: a path that takes one lock twice must not hang the harness)
	if runGuarded(func() {
		for _, op := range c.Pre {
			noteId(op.Id)
			err := idx.Insert(idOf(op.Id), amath.Vector(append([]float32(nil), op.Vec...)), nil, op.Lvl)
			seq++
			inv := seq
			seq++
			events = append(events, cEvent{w: -1, op: op, inv: inv, ret: seq, ok: err == nil})
			versions[op.Id] = append(versions[op.Id], op)
		}
	}) {
		out.Poisoned = true
		out.Violate("C13", "deadlock/single-caller", "a single caller inserting %d items one after the other blocks for ever on an index lock it holds itself", len(c.Pre))
		return
	}
	for _, ops := range c.Workers {
		for _, op := range ops {
			noteId(op.Id)
			if op.K == "ins" {
				versions[op.Id] = append(versions[op.Id], op)
			}
		}
	}
	verOfVec := func(id int, v []float32) int {
		if len(v) == 0 {
			return -1
		}
		for _, in := range versions[id] {
			if in.Vec[0] == v[0] {
				return in.Ver
			}
		}
		return -2
	}

	nOps := 0
	for _, w := range c.Workers {
		nOps += len(w)
	}
	s := newTokSched(len(c.Workers), c.Seed, c.Policy, c.P, nOps*40)
	s.seq = seq
	sched = s
	simrt.YieldFn = schedYield
	simrt.BlockFn = schedBlock
	simrt.WakeFn = schedWake
	simrt.SetMode(simrt.ModeToken)
	local := make([][]cEvent, len(c.Workers))
	var wg sync.WaitGroup
	for w := range c.Workers {
		wg.Add(1)
		go func(w int) {
			defer wg.Done()
			schedWorkerStart(w)
			defer schedWorkerDone(w)
			for _, op := range c.Workers[w] {
				ev := cEvent{w: w, op: op}
				func() {
					defer func() {
						if r := recover(); r != nil {
							ev.panicked = fmt.Sprintf("%v | %s | %s", r, topFrame(debug.Stack()), trimStack(debug.Stack()))
						}
					}()
					ev.inv = schedStamp()
					switch op.K {
					case "ins":
						err := idx.Insert(idOf(op.Id), amath.Vector(append([]float32(nil), op.Vec...)), nil, op.Lvl)
						ev.ok = err == nil
					case "rem":
						ev.ok = idx.Remove(idOf(op.Id)) == nil
					case "get":
						v, err := idx.Get(idOf(op.Id))
						ev.ok = err == nil
						if err == nil {
							ev.ver = verOfVec(op.Id, v)
						}
					case "len":
						ev.n = idx.Len()
					case "search":
						res, _ := idx.Search(context.Background(), amath.Vector(op.Vec), uint(op.N))
						for _, it := range res {
							id, ok := idByUUID[it.Id]
							if !ok {
								id = -1
							}
							ev.res = append(ev.res, cItem{id, it.Score})
						}
					}
				}()
				ev.ret = schedStamp()
				local[w] = append(local[w], ev)
				if ev.panicked != "" {
					return
				}
			}
		}(w)
	}
	s.run()
	deadlocked := s.deadlock
	if !deadlocked {
		wg.Wait()
	}
	simrt.SetMode(simrt.ModePlain)
	out.Stat("schedule_steps", int64(s.steps))
	out.Stat("context_switches", int64(s.switches))
	out.Stat("lock_waits", int64(s.blocks))
	out.Stat("profile_"+c.Profile, 1)
	out.Stat(fmt.Sprintf("policy_%d", c.Policy), 1)
	out.TraceHash = s.trace ^ s.steps<<20
	seq = s.seq
	if deadlocked {
		out.Poisoned = true
		out.Violate("C13", "deadlock", "all workers are waiting for index locks (%d workers, %d steps): %s", len(c.Workers), s.steps, s.describeBlocked())
		// the workers of a deadlocked run must never run on (closing their pipes would give
		// them end-of-file and let them meddle with the next run): they are moved to a wait
		// that holds no OS thread and stay there
		s.abandon()
		sched = nil
		return
	}
	s.close()
	sched = nil
	if s.runaway {
		out.Violate("C13", "livelock", "more than %d scheduling steps for %d operations", s.maxSteps, nOps)
	}
	for w := range local {
		events = append(events, local[w]...)
	}
	sort.Slice(events, func(i, j int) bool { return events[i].inv < events[j].inv })
	var logl []string
	for _, e := range events {
		if e.panicked != "" {
			fr := strings.Split(e.panicked, " | ")
			out.Violate("C13", "panic/"+fr[1]+"/"+c.Profile, "worker %d: %s(id#%d) panicked: %s", e.w, e.op.K, e.op.Id, e.panicked)
		}
		if wantLog {
			logl = append(logl, fmt.Sprintf("[%d,%d] w%d %s id#%d v%d -> ok=%v ver=%d n=%d res=%v", e.inv, e.ret, e.w, e.op.K, e.op.Id, e.op.Ver, e.ok, e.ver, e.n, e.res))
		}
	}
	out.Log = logl
	if len(out.Violations) > 0 {
		return
	}

	// (c) per-id linearizability of insert/remove/get outcomes, with a final read per id
	var hist []porcupine.Operation
	for _, e := range events {
		switch e.op.K {
		case "ins":
			hist = append(hist, porcupine.Operation{ClientId: e.w + 1, Input: setIn{0, e.op.Id, e.op.Ver}, Call: int64(e.inv), Output: setOut{ok: e.ok}, Return: int64(e.ret)})
		case "rem":
			hist = append(hist, porcupine.Operation{ClientId: e.w + 1, Input: setIn{1, e.op.Id, 0}, Call: int64(e.inv), Output: setOut{ok: e.ok}, Return: int64(e.ret)})
		case "get":
			hist = append(hist, porcupine.Operation{ClientId: e.w + 1, Input: setIn{2, e.op.Id, 0}, Call: int64(e.inv), Output: setOut{ok: e.ok, ver: e.ver}, Return: int64(e.ret)})
		}
	}
	finalLive := map[int]int{}
	for id := 0; id <= maxId; id++ {
		v, err := idx.Get(idOf(id))
		seq++
		inv := seq
		seq++
		o := setOut{ok: err == nil}
		if err == nil {
			o.ver = verOfVec(id, v)
			finalLive[id] = o.ver
		}
		hist = append(hist, porcupine.Operation{ClientId: 0, Input: setIn{2, id, 0}, Call: int64(inv), Output: o, Return: int64(seq)})
	}
	res := porcupine.CheckOperationsTimeout(setModel, hist, 20*time.Second)
	switch res {
	case porcupine.Illegal:
		out.Violate("C13", "not-linearizable/set-per-id/"+c.Profile, "insert/remove/get outcomes on some id are not linearizable as a set (history of %d operations)", len(hist))
	case porcupine.Unknown:
		out.Stat("porcupine_inconclusive", 1)
	}
	out.Stat("histories_checked_by_porcupine", 1)

	// (d) Len within what a linearizable counter allows
	for _, e := range events {
		if e.op.K != "len" {
			continue
		}
		lo, hi := 0, 0
		for _, o := range events {
			if !o.ok {
				continue
			}
			switch o.op.K {
			case "ins":
				if o.ret < e.inv {
					lo++
				}
				if o.inv < e.ret {
					hi++
				}
			case "rem":
				if o.inv < e.ret {
					lo--
				}
				if o.ret < e.inv {
					hi--
				}
			}
		}
		if e.n < lo || e.n > hi {
			out.Violate("C13", "len-out-of-bounds/"+c.Profile, "Len() returned %d, any linearizable counter is within [%d,%d] during that call", e.n, lo, hi)
		}
		out.Stat("len_calls_checked", 1)
	}

	// (e) every search result was live at some instant of the search, with a matching score
	for _, e := range events {
		if e.op.K != "search" {
			continue
		}
		out.Stat("concurrent_searches_checked", 1)
		seen := map[int]bool{}
		for i, it := range e.res {
			if i > 0 && e.res[i-1].score > it.score {
				out.Violate("C13", "search-not-ascending/"+c.Profile, "concurrent search result not ascending")
			}
			if it.id < 0 {
				out.Violate("C13", "search-unknown-id/"+c.Profile, "concurrent search returned an id nobody inserted")
				continue
			}
			// an id may legitimately appear twice in a concurrent search (a version
			// removed and a version re-inserted during the search were both live in
			// its window); the statement only requires each item to have been live
			seen[it.id] = true
			okLive := false
			for _, in := range versions[it.id] {
				if !close32(sp.Distance(amath.Vector(e.op.Vec), amath.Vector(in.Vec)), it.score) {
					continue
				}
				// the insert event of this version
				var ie *cEvent
				for k := range events {
					if events[k].op.K == "ins" && events[k].op.Ver == in.Ver {
						ie = &events[k]
					}
				}
				if ie == nil || !ie.ok || ie.inv > e.ret {
					continue
				}
				dead := false
				for _, r := range events {
					if r.op.K == "rem" && r.op.Id == it.id && r.ok && r.inv > ie.ret && r.ret < e.inv {
						dead = true
					}
				}
				if !dead {
					okLive = true
				}
			}
			if !okLive {
				out.Violate("C13", "search-returned-item-not-live-in-window/"+c.Profile, "search [%d,%d] returned id#%d score %v: no version of it with that distance was live during the search", e.inv, e.ret, it.id, it.score)
			}
		}
	}

	// (f) quiescent invariants and the sequential search guarantees
	d := idx.VerifDump()
	if int(d.Len) != len(d.Vertices) {
		out.Violate("C13", "quiescent/len-counter/"+c.Profile, "Len counter %d, %d items stored", d.Len, len(d.Vertices))
	}
	var wantBytes uint64
	for _, v := range d.Vertices {
		wantBytes += 16 + 4*uint64(len(v.Vector))
		if v.Deleted {
			out.Violate("C13", "quiescent/stored-tombstone/"+c.Profile, "stored item %s carries a tombstone", v.Id)
		}
		for l, es := range v.Edges {
			for _, e := range es {
				if e.ToLevel < l {
					out.Violate("C13", "quiescent/link-above-neighbour-level/"+c.Profile, "item %s links at level %d to %s whose level is %d", v.Id, l, e.To, e.ToLevel)
				}
			}
		}
	}
	if d.DataBytes != wantBytes {
		out.Violate("C13", "quiescent/bytes-counter/"+c.Profile, "data-bytes counter %d, stored items account for %d", d.DataBytes, wantBytes)
	}
	if len(d.Vertices) > 0 && (!d.HasEntrypoint || d.EntrypointDeleted || !d.EntrypointStored) {
		out.Violate("C13", "quiescent/dead-entrypoint/"+c.Profile, "index holds %d items but its entry point is missing or removed (has=%v deleted=%v stored=%v)", len(d.Vertices), d.HasEntrypoint, d.EntrypointDeleted, d.EntrypointStored)
	}
	ir := &idxRun{cfg: c.Cfg, idx: idx, model: map[int]*mItem{}, out: &out}
	for id, ver := range finalLive {
		for _, in := range versions[id] {
			if in.Ver == ver {
				ir.model[id] = &mItem{vec: in.Vec}
			}
		}
	}
	before := len(out.Violations)
	for _, op := range c.Final {
		ir.checkSearch(IdxOp{K: "search", Vec: op.Vec, N: op.N}, "C13")
	}
	for i := before; i < len(out.Violations); i++ {
		out.Violations[i].Sig = "quiescent/search/" + out.Violations[i].Sig + "/" + c.Profile
	}
	out.Nontrivial = s.switches > 0
	return
}

var raceFnRe = regexp.MustCompile(`(?m)^\s+github\.com/marekgalovic/anndb/([^\s(]+(?:\([^)]*\))?[^\s(]*)\(`)

// raceSig builds a signature from a race detector report: the innermost
// repository function of each of the two conflicting accesses.
func raceSig(stderr string) (string, string) {
	i := strings.Index(stderr, "WARNING: DATA RACE")
	if i < 0 {
		return "", ""
	}
	rep := stderr[i:]
	if j := strings.Index(rep, "=================="); j > 0 {
		rep = rep[:j]
	}
	blocks := regexp.MustCompile(`(?m)^(Write|Read|Previous write|Previous read|Atomic)[^\n]*\n((?:  .*\n|\s*\n)*)`).FindAllStringSubmatch(rep, -1)
	var fns []string
	for _, b := range blocks {
		if m := raceFnRe.FindStringSubmatch(b[2]); m != nil {
			fn := m[1]
			fns = append(fns, strings.ToLower(strings.Fields(b[1])[len(strings.Fields(b[1]))-1])+":"+fn)
		}
	}
	if len(fns) > 2 {
		fns = fns[:2]
	}
	sort.Strings(fns)
	return "data-race/" + strings.Join(fns, "~"), "race detector: " + tail(rep, 1500)
}

func shrinkC13(raw json.RawMessage) []json.RawMessage {
	var c ConcCase
	if json.Unmarshal(raw, &c) != nil {
		return nil
	}
	var out []json.RawMessage
	emit := func(n ConcCase) {
		b, _ := json.Marshal(n)
		out = append(out, b)
	}
	if len(c.Workers) > 2 {
		for w := range c.Workers {
			n := c
			n.Workers = append(append([][]COp(nil), c.Workers[:w]...), c.Workers[w+1:]...)
			emit(n)
		}
	}
	for w := range c.Workers {
		ops := c.Workers[w]
		for i := range ops {
			n := c
			n.Workers = append([][]COp(nil), c.Workers...)
			n.Workers[w] = append(append([]COp(nil), ops[:i]...), ops[i+1:]...)
			if len(n.Workers[w]) == 0 {
				continue
			}
			emit(n)
		}
	}
	for i := range c.Pre {
		n := c
		n.Pre = append(append([]COp(nil), c.Pre[:i]...), c.Pre[i+1:]...)
		emit(n)
	}
	if len(c.Final) > 0 {
		n := c
		n.Final = nil
		emit(n)
	}
	if c.Policy == 0 && c.P > 8 {
		n := c
		n.P = c.P / 2
		emit(n)
	}
	return out
}

func init() {
	Register(&Check{
		ID:    "C13",
		Level: "exploration",
		Rule: "case = index parameters + sequential prefix + 2..5 workers with 2..10 operations each (Insert/Remove/Get/Len/Search over 3..10 ids, unique vector per insert; profiles one-writer-many-readers and many-writers) + a schedule: a seeded token scheduler decides at every lock operation and every sync/atomic statement of package index who runs next (random switching with probability 3%..100%, or PCT with 1..3 priority change points); " +
			"non-trivial = at least one context switch; distinct = distinct hash of the schedule (sequence of chosen workers); second leg: same cases in a -race build",
		Assumptions: []string{
			"interleavings are explored at the granularity of the index's own synchronisation operations; plain memory accesses between them are covered only by the race-detector leg",
			"porcupine Unknown (timeout) is counted as inconclusive, never reported",
		},
		Real:   []string{"index.Hnsw with its real per-vertex / per-shard RWMutexes (TryLock-acquired under the token scheduler) and atomics", "Go race detector (second leg)"},
		Stub:   []string{"goroutine scheduling (token scheduler)", "map iteration order (owned)"},
		Probes: []string{"context_switches", "lock_waits", "profile_many-writers", "profile_one-writer-many-readers", "profile_many-inserters", "policy_0", "policy_1", "histories_checked_by_porcupine", "concurrent_searches_checked", "len_calls_checked", "race_leg_runs"},
		Budget: func(tier string) (int, time.Duration) {
			if tier == "thorough" {
				return 300000, 45 * time.Minute
			}
			return 12000, 4 * time.Minute
		},
		RaceSeeds: func(tier string) int {
			if tier == "thorough" {
				return 40000
			}
			return 3000
		},
		DeathSig: func(stderr string, cs json.RawMessage) (string, string) {
			var c ConcCase
			json.Unmarshal(cs, &c)
			if sig, msg := raceSig(stderr); sig != "" {
				return sig + "/" + c.Profile, msg
			}
			if strings.Contains(stderr, "fatal error: all goroutines are asleep") {
				return "deadlock-runtime", tail(stderr, 800)
			}
			if i := strings.Index(stderr, "fatal error:"); i >= 0 {
				return "fatal/" + strings.SplitN(stderr[i+13:], "\n", 2)[0], tail(stderr, 1500)
			}
			return "", ""
		},
		Gen:    genC13,
		Exec:   withSample(genC13, execC13),
		Shrink: shrinkC13,
	})
}

var _ = math.Abs
var _ = os.Getenv
var _ index.Metadata
