package anndbverif

import (
	"context"
	"encoding/json"
	"fmt"
	"runtime"
	"runtime/debug"
	"strings"
	"testing/synctest"
	"time"

	pb "github.com/marekgalovic/anndb/protobuf"
	uuid "github.com/satori/go.uuid"

	"simrt"
)

// runBubble executes fn as the root goroutine of a synctest bubble. Goroutines
// of crashed node incarnations stay parked forever by design, so the bubble's
// end-of-test deadlock panic is expected and swallowed.
func runBubble(out *Outcome, fn func()) {
	defer func() {
		if r := recover(); r != nil {
			msg := fmt.Sprint(r)
			if strings.Contains(msg, "deadlock") && strings.Contains(msg, "bubble") {
				return
			}
			out.Harness = fmt.Sprintf("bubble panic: %v\n%s", r, debug.Stack())
		}
	}()
	// no garbage collection while the simulation runs: a collection preempts
	// the running goroutine at a point that depends on real time
	runtime.GC() // no collection may be in flight when the run starts
	gcOld := debug.SetGCPercent(-1)
	// ... except (a) at quiescent instants chosen by the driver (Sim.maybeGC: every other
	// goroutine is durably blocked, so the collection cannot reorder anything), and (b)
	// as a safety valve far above what (a) lets accumulate
	memOld := debug.SetMemoryLimit(3 << 30)
	defer func() {
		debug.SetGCPercent(gcOld)
		debug.SetMemoryLimit(memOld)
		runtime.GC()
	}()
	synctest.Test(theT, func(t *testing_T) {
		defer func() {
			if r := recover(); r != nil {
				if s, ok := r.(string); ok && strings.HasPrefix(s, "harness:") {
					out.Harness = s
					return
				}
				out.Harness = fmt.Sprintf("driver panic: %v\n%s", r, debug.Stack())
			}
		}()
		fn()
	})
}

func (s *Sim) zeroLeader() *simNode {
	l, _ := s.leaderOf(uuid.Nil)
	return l
}

// formCluster starts n nodes: the first bootstraps, the others join through it.
func (s *Sim) formCluster(n int) bool {
	n1 := s.addNode(nil)
	if err := s.startNode(n1); err != nil {
		return false
	}
	if !s.runUntil(func() bool { return s.zeroLeader() != nil }, 15*time.Second) {
		return false
	}
	for i := 2; i <= n; i++ {
		ni := s.addNode([]int{1})
		if err := s.startNode(ni); err != nil {
			return false
		}
		want := i
		if !s.runUntil(func() bool { return s.membershipConverged(want) }, 30*time.Second) {
			return false
		}
	}
	return true
}

func (s *Sim) membershipConverged(want int) bool {
	for _, n := range s.nodes {
		if !n.alive || n.parts == nil {
			continue
		}
		if m, _ := n.parts.ClusterConn.VerifNodes(); len(m) != want {
			return false
		}
	}
	return true
}

type SmokeCase struct {
	Cfg   W3Cfg `json:"cfg"`
	Nodes int   `json:"nodes"`
}

func execSmoke(raw json.RawMessage, wantLog bool) (out Outcome) {
	var c SmokeCase
	json.Unmarshal(raw, &c)
	runBubble(&out, func() {
		s := newSim(c.Cfg, &out, wantLog)
		defer s.close()
		if !s.formCluster(c.Nodes) {
			out.Violate("SMOKE", "no-cluster", "cluster of %d did not form", c.Nodes)
			out.Log = s.log
			return
		}
		n1 := s.nodes[0]
		op := s.client(n1, "create", 5*time.Second, func(ctx context.Context, n *simNode) (interface{}, error) {
			return n.svcDM.Create(ctx, &pb.Dataset{Dimension: 2, Space: pb.Space_Euclidean, PartitionCount: 2, ReplicationFactor: 3})
		})
		s.runUntil(func() bool { return op.done }, 10*time.Second)
		if op.err != nil {
			out.Violate("SMOKE", "create-failed", "%v", op.err)
			out.Log = s.log
			return
		}
		ds := op.res.(*pb.Dataset)
		s.runFor(5 * time.Second)
		okIns := 0
		for i := 0; i < 6; i++ {
			i := i
			n := s.nodes[i%len(s.nodes)]
			ins := s.client(n, fmt.Sprintf("insert %d", i), 6*time.Second, func(ctx context.Context, n *simNode) (interface{}, error) {
				return n.svcData.Insert(ctx, &pb.InsertRequest{DatasetId: ds.Id, Id: idOf(i).Bytes(), Value: []float32{float32(i), 1}})
			})
			s.runUntil(func() bool { return ins.done }, 10*time.Second)
			if ins.err == nil {
				okIns++
			}
		}
		out.Stat("inserts_ok", int64(okIns))
		s.runFor(2 * time.Second)
		sr := s.client(n1, "search", 5*time.Second, func(ctx context.Context, n *simNode) (interface{}, error) {
			fs := &fakeServerStream{ctx: ctx}
			err := n.svcSrch.Search(&pb.SearchRequest{DatasetId: ds.Id, Query: []float32{0, 0}, K: 3}, srvStreamItems{fs})
			return len(fs.sent), err
		})
		s.runUntil(func() bool { return sr.done }, 10*time.Second)
		s.logf("search -> %v err=%v", sr.res, sr.err)
		out.SimSeconds = s.now().Seconds()
		out.TraceHash = s.h
		out.Log = s.log
		out.Stat("steps", int64(s.steps))
		out.Nontrivial = true
	})
	return
}

func init() {
	Register(&Check{
		ID: "SMOKE", Level: "exploration", Rule: "smoke", MemLimit: 96 << 30,
		Budget: func(tier string) (int, time.Duration) { return 4, time.Minute },
		Gen: func(r *simrt.Rand, tier string) json.RawMessage {
			b, _ := json.Marshal(SmokeCase{Cfg: W3Cfg{Seed: r.Uint64(), SnapshotOffset: 20, Net: NetCfg{MinLatMs: 1, JitterMs: 5}}, Nodes: 3})
			return b
		},
		Exec: execSmoke,
	})
}
