package anndbverif

// Scoped race leg of the cluster checks (World III under the race detector).
//
// The cluster worlds run on one P; which goroutine runs next is the simulator's
// decision. That serialises every memory access, so a lost update between two plain
// read-modify-write statements can never show as a wrong value there. The race
// detector does not need the accesses to overlap in time: it reports two accesses to
// one location that no happens-before edge orders, whatever the schedule was. A
// second binary built with -race therefore executes the same seeded scenarios, and
// the reports it writes (GORACE log_path, halt_on_error=0) are read back after every
// case.
//
// What counts is narrowed on purpose to the operation a property is anchored in
// (Check.RaceScope, function-name fragments): BOTH conflicting accesses must lie in
// the dynamic extent of such a function - its frame is on the access's stack or on
// the creation stack of the accessing goroutine - and neither access may be the
// harness's own (hooks and interceptors run on product goroutines and keep their
// books without locks: one P). A race between, say, a request and the catalogue's
// apply loop is outside the extent and is not reported by this leg.

import (
	"encoding/json"
	"fmt"
	"os"
	"os/exec"
	"path/filepath"
	"regexp"
	"sort"
	"strings"
)

type raceMark struct {
	c    *Check
	path string
	off  int64
}

func raceScoped(c *Check) bool {
	return c != nil && len(c.RaceScope) > 0 && os.Getenv("VERIF_LEG") == "race" && os.Getenv("VERIF_RACE_LOG") != ""
}

func newRaceMark(c *Check) *raceMark {
	if !raceScoped(c) {
		return nil
	}
	m := &raceMark{c: c, path: fmt.Sprintf("%s.%d", os.Getenv("VERIF_RACE_LOG"), os.Getpid())}
	if st, err := os.Stat(m.path); err == nil {
		m.off = st.Size()
	}
	return m
}

func (m *raceMark) collect() []Violation {
	b, err := os.ReadFile(m.path)
	if err != nil || int64(len(b)) <= m.off {
		return nil
	}
	var out []Violation
	seen := map[string]bool{}
	for _, rep := range strings.Split(string(b[m.off:]), "WARNING: DATA RACE")[1:] {
		if j := strings.Index(rep, "=================="); j >= 0 {
			rep = rep[:j]
		}
		sig, ok := raceInScope(rep, m.c.RaceScope)
		if !ok || seen[sig] {
			continue
		}
		seen[sig] = true
		out = append(out, Violation{Property: m.c.ID, Sig: sig, Msg: "race detector (both accesses inside " + strings.Join(m.c.RaceScope, " | ") + "): " + tail("WARNING: DATA RACE"+rep, 6000)})
	}
	return out
}

var (
	raceAccessHdr = regexp.MustCompile(`^(Write|Read|Previous write|Previous read|Atomic write|Atomic read|Previous atomic write|Previous atomic read) at \S+ by (?:goroutine (\d+)|main goroutine):`)
	raceCreateHdr = regexp.MustCompile(`^Goroutine (\d+) \([a-z]+\) created at:`)
)

type raceFrame struct{ fn, file string }

func raceFrames(lines []string) []raceFrame {
	var fr []raceFrame
	for i := 0; i+1 < len(lines); i += 2 {
		fn := strings.TrimSuffix(strings.TrimSpace(lines[i]), "()")
		file := strings.Fields(strings.TrimSpace(lines[i+1]) + " .")[0]
		fr = append(fr, raceFrame{fn, file})
	}
	return fr
}

func raceHarnessFrame(f raceFrame) bool {
	return strings.HasPrefix(f.fn, "anndbverif.") || strings.HasPrefix(f.fn, "simrt") || strings.Contains(f.fn, "/simrt") ||
		strings.HasSuffix(strings.SplitN(f.file, ":", 2)[0], "_verif.go") || strings.Contains(f.file, "verif_hooks.go")
}

func raceRuntimeFrame(f raceFrame) bool {
	for _, p := range []string{"runtime.", "sync.", "sync/atomic.", "internal/", "reflect."} {
		if strings.HasPrefix(f.fn, p) {
			return true
		}
	}
	return false
}

// raceInScope decides whether a report (text after "WARNING: DATA RACE") counts for
// this scope and names it: the innermost repository function of each access.
func raceInScope(rep string, scope []string) (string, bool) {
	type access struct {
		kind   string
		gid    string
		frames []raceFrame
	}
	var acc []access
	created := map[string][]raceFrame{}
	for _, sec := range strings.Split(strings.TrimSpace(rep), "\n\n") {
		lines := strings.Split(strings.TrimSpace(sec), "\n")
		if len(lines) == 0 {
			continue
		}
		hdr := strings.TrimSpace(lines[0])
		if m := raceAccessHdr.FindStringSubmatch(hdr); m != nil {
			k := strings.Fields(strings.ToLower(m[1]))
			acc = append(acc, access{kind: k[len(k)-1], gid: m[2], frames: raceFrames(lines[1:])})
		} else if m := raceCreateHdr.FindStringSubmatch(hdr); m != nil {
			created[m[1]] = raceFrames(lines[1:])
		}
	}
	if len(acc) != 2 {
		return "", false
	}
	inScope := func(fr []raceFrame) bool {
		for _, f := range fr {
			for _, s := range scope {
				if strings.Contains(f.fn, s) {
					return true
				}
			}
		}
		return false
	}
	var names []string
	for _, a := range acc {
		var inner *raceFrame
		for i := range a.frames {
			if !raceRuntimeFrame(a.frames[i]) {
				inner = &a.frames[i]
				break
			}
		}
		if inner == nil || raceHarnessFrame(*inner) {
			return "", false
		}
		if !inScope(a.frames) && !inScope(created[a.gid]) {
			return "", false
		}
		name := ""
		for _, f := range a.frames {
			if strings.Contains(f.fn, "github.com/marekgalovic/anndb") && !raceHarnessFrame(f) {
				name = f.fn[strings.Index(f.fn, "github.com/marekgalovic/anndb")+len("github.com/marekgalovic/anndb"):]
				name = strings.TrimPrefix(name, "/")
				break
			}
		}
		if name == "" {
			return "", false
		}
		names = append(names, a.kind+":"+name)
	}
	sort.Strings(names)
	return "data-race/" + strings.Join(names, "~"), true
}

// raceExecFresh runs one candidate case in a fresh process of this (race) binary and
// says whether the target violation recurs: the race detector reports a pair of
// stacks once per process, so a candidate cannot be judged in the process that has
// already seen the report.
func raceExecFresh(c *Check, cand json.RawMessage, target Violation) bool {
	d, err := os.MkdirTemp(os.Getenv("VERIF_SCRATCH_RUN"), "raceshrink")
	if err != nil {
		return false
	}
	defer os.RemoveAll(d)
	rf := ReplayFile{Property: target.Property, Sig: target.Sig, Case: cand}
	b, _ := json.Marshal(rf)
	p := filepath.Join(d, "cand.json")
	if os.WriteFile(p, b, 0644) != nil {
		return false
	}
	cmd := exec.Command(os.Args[0], "-test.run", "^TestEntry$", "-test.timeout", "0", "-test.cpu", "1", "-test.count", "1")
	cmd.Env = append(os.Environ(), "VERIF_ROLE=replay", "VERIF_CHECK="+c.ID, "VERIF_REPLAY="+p, "VERIF_DEBUG=")
	outb, _ := cmd.CombinedOutput()
	return strings.Contains(string(outb), "\nREPRODUCED property="+target.Property+" sig="+target.Sig) || strings.HasPrefix(string(outb), "REPRODUCED property="+target.Property+" sig="+target.Sig)
}
