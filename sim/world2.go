package anndbverif

// World II: stand-alone partition state machines (hook H7) fed byte-identical
// PartitionChange entries. Decides C02 (one replica against a sequential map
// model) and C04 (several replicas, every snapshot cut point).

import (
	"encoding/json"
	"fmt"
	"math"
	"reflect"
	"runtime/debug"
	"sort"
	"strings"
	"time"

	"github.com/golang/protobuf/proto"
	"github.com/marekgalovic/anndb/index"
	pb "github.com/marekgalovic/anndb/protobuf"
	"github.com/marekgalovic/anndb/storage"
	uuid "github.com/satori/go.uuid"

	"simrt"
)

type PItem struct {
	Id   int               `json:"id"`
	Vec  []float32         `json:"vec,omitempty"`
	Meta map[string]string `json:"meta,omitempty"`
	Lvl  int               `json:"lvl,omitempty"`
	Many [2]int            `json:"many,omitempty"` // {series, count}: that many generated keys on top of Meta (kept out of the case file)
}

// meta is the item's full metadata: Meta plus the generated key series.
func (it PItem) meta() map[string]string {
	if it.Many[1] == 0 {
		return it.Meta
	}
	m := make(map[string]string, len(it.Meta)+it.Many[1])
	for k, v := range it.Meta {
		m[k] = v
	}
	for i := 0; i < it.Many[1]; i++ {
		m[fmt.Sprintf("s%d_%05d", it.Many[0], i)] = ""
	}
	return m
}

type PEntry struct {
	T     int     `json:"t"` // pb.PartitionChangeType 0..5
	It    PItem   `json:"it,omitempty"`
	Items []PItem `json:"items,omitempty"`
}

type PartCase struct {
	Dim       int      `json:"dim"`
	Space     int      `json:"space"` // pb.Space 0..2
	OrderMode int32    `json:"order_mode"`
	OrderSeed uint64   `json:"order_seed"`
	Entries   []PEntry `json:"entries"`
}

func notifIdOf(i int) uuid.UUID { return idOf(1000000 + i) }

func (e PEntry) marshal(i int) []byte {
	ch := &pb.PartitionChange{Type: pb.PartitionChangeType(e.T), NotificationId: notifIdOf(i).Bytes()}
	item := func(it PItem) *pb.BatchItem {
		return &pb.BatchItem{Id: idOf(it.Id).Bytes(), Value: append([]float32(nil), it.Vec...), Metadata: map[string]string(copyMeta(it.meta())), Level: int32(it.Lvl)}
	}
	if e.T <= 2 {
		ch.Id = idOf(e.It.Id).Bytes()
		ch.Value = append([]float32(nil), e.It.Vec...)
		ch.Metadata = map[string]string(copyMeta(e.It.meta()))
		ch.Level = int32(e.It.Lvl)
	} else {
		for _, it := range e.Items {
			ch.BatchItems = append(ch.BatchItems, item(it))
		}
	}
	b, err := proto.Marshal(ch)
	if err != nil {
		panic(err)
	}
	return b
}

func genPItem(r *simrt.Rand, dim, nIds int, cos bool, grid bool) PItem {
	lvl := 0
	if r.Bool(0.25) {
		lvl = r.Range(1, 3)
	}
	it := PItem{Id: r.Intn(nIds), Vec: genVec(r, dim, grid, cos), Meta: genMeta(r, true), Lvl: lvl}
	if r.Bool(0.04) { // shapes the snapshot format cannot hold: must be rejected without any effect
		switch r.Intn(5) {
		case 3:
			// within the limits when counted in characters, over them in bytes (the snapshot
			// format stores byte lengths)
			it.Meta = map[string]string{strings.Repeat("\u00e9", r.Range(128, 255)): "x"}
		case 4:
			it.Meta = map[string]string{"v": strings.Repeat("\u20ac", r.Range(21846, 30000))}
		case 0:
			it.Meta = map[string]string{strings.Repeat("K", 256): "x"}
		case 1:
			it.Meta = map[string]string{"big": strings.Repeat("V", 65536)}
		case 2:
			it.Meta = map[string]string{"a": "1", strings.Repeat("K", 300): strings.Repeat("V", 70000)}
		}
	}
	return it
}

func genPartCase(r *simrt.Rand, maxEntries int) PartCase {
	c := PartCase{Dim: r.Range(1, 5), Space: r.Intn(3), OrderMode: int32(r.Intn(3)), OrderSeed: r.Uint64()}
	nIds := r.Range(2, 14)
	n := r.Range(1, maxEntries)
	grid := r.Bool(0.3)
	cos := c.Space == 2
	for i := 0; i < n; i++ {
		var e PEntry
		x := r.Intn(100)
		switch {
		case x < 30:
			e.T = 0
		case x < 45:
			e.T = 1
		case x < 65:
			e.T = 2
		case x < 78:
			e.T = 3
		case x < 88:
			e.T = 4
		default:
			e.T = 5
		}
		if e.T <= 2 {
			e.It = genPItem(r, c.Dim, nIds, cos, grid)
			if e.T == 2 {
				e.It = PItem{Id: e.It.Id}
			}
		} else {
			k := r.Range(0, 5)
			for j := 0; j < k; j++ {
				it := genPItem(r, c.Dim, nIds, cos, grid)
				if e.T == 5 {
					it = PItem{Id: it.Id}
				}
				e.Items = append(e.Items, it)
			}
			if k > 0 && r.Bool(0.2) { // same id twice in one batch
				e.Items = append(e.Items, e.Items[0])
			}
		}
		c.Entries = append(c.Entries, e)
	}
	pMany := 0.012
	if maxEntries == 24 || maxEntries == 60 { // C04 replays every such log at every cut point: fewer of them
		pMany = 0.003
	}
	if r.Bool(pMany) {
		// The entry-count limit is a property of the MERGED metadata: an item with many keys is
		// updated with many other keys, each map valid on its own. Over the limit the update is
		// refused and the item stays as it was; exactly at the limit it goes through.
		id := r.Intn(nIds)
		second := []int{30000, 25535, 25536}[r.Intn(3)]
		base := PItem{Id: id, Vec: genVec(r, c.Dim, grid, cos), Many: [2]int{1, 40000}}
		c.Entries = append(c.Entries, PEntry{T: 2, It: PItem{Id: id}}, PEntry{T: 0, It: base})
		upd := PItem{Id: id, Vec: genVec(r, c.Dim, grid, cos), Many: [2]int{2, second}}
		if r.Bool(0.5) {
			c.Entries = append(c.Entries, PEntry{T: 1, It: upd})
		} else {
			c.Entries = append(c.Entries, PEntry{T: 4, Items: []PItem{upd}})
		}
		c.Entries = append(c.Entries, PEntry{T: 0, It: PItem{Id: id, Vec: genVec(r, c.Dim, grid, cos)}})
	}
	return c
}

// ---------------------------------------------------------------------------
// sequential map model

type pModel struct {
	items map[int]*mItem
	dim   int
}

const (
	oOK       = "ok"
	oExists   = "Item already exists"
	oNotFound = "Item not found"
	oTooLarge = "Metadata too large"
)

func (m *pModel) ins(it PItem) string {
	if metaOverLimit(it.meta()) {
		return oTooLarge
	}
	if _, ok := m.items[it.Id]; ok {
		return oExists
	}
	m.items[it.Id] = &mItem{vec: it.Vec, meta: map[string]string(copyMeta(it.meta())), lvl: it.Lvl}
	return oOK
}

func (m *pModel) upd(it PItem) string {
	old, ok := m.items[it.Id]
	if !ok {
		return oNotFound
	}
	md := map[string]string{}
	for k, v := range old.meta {
		md[k] = v
	}
	for k, v := range it.meta() {
		md[k] = v
	}
	if metaOverLimit(md) {
		return oTooLarge
	}
	m.items[it.Id] = &mItem{vec: it.Vec, meta: md, lvl: old.lvl}
	return oOK
}

func (m *pModel) del(it PItem) string {
	if _, ok := m.items[it.Id]; !ok {
		return oNotFound
	}
	delete(m.items, it.Id)
	return oOK
}

// apply returns the expected outcome: for single changes a string, for
// batches a map id -> error string (failed ids only).
func (m *pModel) apply(e PEntry) (single string, batch map[int]string) {
	switch e.T {
	case 0:
		return m.ins(e.It), nil
	case 1:
		return m.upd(e.It), nil
	case 2:
		return m.del(e.It), nil
	}
	batch = map[int]string{}
	for _, it := range e.Items {
		var o string
		switch e.T {
		case 3:
			o = m.ins(it)
		case 4:
			o = m.upd(it)
		case 5:
			o = m.del(it)
		}
		if o != oOK {
			batch[it.Id] = o
		}
	}
	return "", batch
}

func (m *pModel) dataBytes() uint64 {
	var n uint64
	for _, it := range m.items {
		n += 16 + 4*uint64(len(it.vec))
		for k, v := range it.meta {
			n += uint64(len(k) + len(v))
		}
	}
	return n
}

// normalise what a replica reported for an entry
func normOutcome(e PEntry, outcome interface{}, reported bool) (single string, batch map[string]string, desc string) {
	if !reported {
		return "", nil, "nothing-reported"
	}
	if e.T <= 2 {
		if outcome == nil {
			return oOK, nil, oOK
		}
		if err, ok := outcome.(error); ok {
			return err.Error(), nil, err.Error()
		}
		return "", nil, fmt.Sprintf("unexpected outcome type %T", outcome)
	}
	v := reflect.ValueOf(outcome)
	if !v.IsValid() || v.Kind() != reflect.Map {
		return "", nil, fmt.Sprintf("unexpected batch outcome type %T", outcome)
	}
	batch = map[string]string{}
	for it := v.MapRange(); it.Next(); {
		id := it.Key().Interface().(uuid.UUID)
		msg := "<nil>"
		if err, ok := it.Value().Interface().(error); ok && err != nil {
			msg = err.Error()
		}
		batch[id.String()] = msg
	}
	keys := make([]string, 0, len(batch))
	for k, v := range batch {
		keys = append(keys, k+"="+v)
	}
	sort.Strings(keys)
	return "", batch, "{" + strings.Join(keys, ",") + "}"
}

func outcomeMatches(e PEntry, wantS string, wantB map[int]string, gotS string, gotB map[string]string) bool {
	if e.T <= 2 {
		return wantS == gotS
	}
	if len(wantB) != len(gotB) {
		return false
	}
	for id, w := range wantB {
		if g, ok := gotB[idOf(id).String()]; !ok || g != w {
			return false
		}
	}
	return true
}

func spaceOfPb(s int) int { return s + 1 } // IdxCfg numbering

// dumpVsModel compares a replica's contents with the model.
func dumpVsModel(d *index.VerifState, m *pModel) string {
	if len(d.Vertices) != len(m.items) {
		return fmt.Sprintf("item-set: replica holds %d items, model %d", len(d.Vertices), len(m.items))
	}
	byId := map[uuid.UUID]int{}
	for i := range m.items {
		byId[idOf(i)] = i
	}
	for _, v := range d.Vertices {
		i, ok := byId[v.Id]
		if !ok {
			return fmt.Sprintf("item-set: replica holds %s which the model does not", v.Id)
		}
		it := m.items[i]
		if len(v.Vector) != len(it.vec) {
			return fmt.Sprintf("vector: id#%d length %d vs %d", i, len(v.Vector), len(it.vec))
		}
		for j := range v.Vector {
			if math.Float32bits(v.Vector[j]) != math.Float32bits(it.vec[j]) {
				return fmt.Sprintf("vector: id#%d component %d", i, j)
			}
		}
		if !metaEqual(v.Metadata, it.meta) {
			return fmt.Sprintf("metadata: id#%d replica %v model %v", i, v.Metadata, it.meta)
		}
		if v.Deleted {
			return fmt.Sprintf("tombstone: id#%d stored but flagged deleted", i)
		}
	}
	return ""
}

func firstWord(s string) string {
	if i := strings.IndexAny(s, ": "); i > 0 {
		return s[:i]
	}
	return s
}

type replica struct {
	p         *storage.VerifPartition
	orderSeed uint64
	orderMode int32
}

func (r *replica) use() { simrt.SetOrder(r.orderSeed, r.orderMode) }

func newReplica(c PartCase, salt uint64) *replica {
	r := &replica{orderSeed: c.OrderSeed ^ salt*0x9e3779b97f4a7c15, orderMode: c.OrderMode}
	if salt != 0 {
		r.orderMode = int32((uint64(c.OrderMode) + salt) % 3)
	}
	r.p = storage.NewVerifPartition(uint32(c.Dim), pb.Space(c.Space))
	return r
}

type applied struct {
	s    string
	b    map[string]string
	desc string
	err  error
}

func (r *replica) apply(e PEntry, i int, data []byte) applied {
	r.use()
	out, rep, err := r.p.Apply(data, notifIdOf(i))
	s, b, d := normOutcome(e, out, rep)
	return applied{s, b, d, err}
}

// ---------------------------------------------------------------------------
// C02

func execC02(raw json.RawMessage, wantLog bool) (out Outcome) {
	var c PartCase
	if err := json.Unmarshal(raw, &c); err != nil {
		out.Harness = err.Error()
		return
	}
	simrt.SetMode(simrt.ModePlain)
	var h uint64
	var logl []string
	logf := func(f string, a ...interface{}) {
		s := fmt.Sprintf(f, a...)
		h = simrt.HashBytes(h, []byte(s))
		if wantLog {
			logl = append(logl, s)
		}
	}
	cur := -1
	defer func() {
		if r := recover(); r != nil {
			t := -1
			if cur >= 0 && cur < len(c.Entries) {
				t = c.Entries[cur].T
			}
			out.Violate("C02", fmt.Sprintf("panic/%s/change-type-%d", topFrame(debug.Stack()), t), "applying entry %d panicked: %v | %s", cur, r, trimStack(debug.Stack()))
		}
		out.TraceHash = h
		out.Log = logl
	}()
	rep := newReplica(c, 0)
	m := &pModel{items: map[int]*mItem{}, dim: c.Dim}
	effects := 0
	for i, e := range c.Entries {
		cur = i
		before := len(m.items)
		wantS, wantB := m.apply(e)
		got := rep.apply(e, i, e.marshal(i))
		logf("entry %d type=%d -> %s", i, e.T, got.desc)
		out.Stat(fmt.Sprintf("entries_type_%d", e.T), 1)
		if got.err != nil {
			out.Violate("C02", fmt.Sprintf("apply-error/change-type-%d", e.T), "entry %d: apply returned error %v (fatal in the raft loop)", i, got.err)
			return
		}
		if wantS != oOK || len(wantB) > 0 {
			out.Stat("entries_with_expected_errors", 1)
		}
		if before != len(m.items) || e.T == 1 || e.T == 4 {
			effects++
		}
		if !outcomeMatches(e, wantS, wantB, got.s, got.b) {
			want := wantS
			if e.T > 2 {
				ks := []string{}
				for id, w := range wantB {
					ks = append(ks, idOf(id).String()+"="+w)
				}
				sort.Strings(ks)
				want = "{" + strings.Join(ks, ",") + "}"
			}
			cls := "wrong-outcome"
			if got.desc == "nothing-reported" {
				cls = "no-outcome-reported"
			}
			out.Violate("C02", fmt.Sprintf("%s/change-type-%d", cls, e.T), "entry %d (type %d): replica reported %s, sequential map says %s", i, e.T, got.desc, want)
		}
		d := rep.p.Dump()
		if diff := dumpVsModel(d, m); diff != "" {
			out.Violate("C02", fmt.Sprintf("contents-differ/%s/change-type-%d", firstWord(diff), e.T), "after entry %d: %s", i, diff)
			return
		}
		if rep.p.Len() != len(m.items) {
			out.Violate("C02", "len-counter", "after entry %d: Len()=%d, live ids=%d", i, rep.p.Len(), len(m.items))
		}
		if d.DataBytes != m.dataBytes() {
			out.Violate("C02", "data-bytes-counter", "after entry %d: data-bytes counter %d, live items account for %d", i, d.DataBytes, m.dataBytes())
		}
		bs := rep.p.BytesSize()
		if bs >= 1<<62 || bs < m.dataBytes() || bs-m.dataBytes() > uint64(len(m.items))*4096 {
			out.Violate("C02", "bytes-size-out-of-bounds", "after entry %d: BytesSize()=%d, data bytes %d, items %d", i, bs, m.dataBytes(), len(m.items))
		}
	}
	out.Nontrivial = effects > 0
	return
}

func genC02(r *simrt.Rand, tier string) json.RawMessage {
	max := 40
	if tier == "thorough" {
		max = 80
	}
	b, _ := json.Marshal(genPartCase(r, max))
	return b
}

func shrinkPart(raw json.RawMessage) []json.RawMessage {
	var c PartCase
	if json.Unmarshal(raw, &c) != nil {
		return nil
	}
	var out []json.RawMessage
	emit := func(n PartCase) {
		b, _ := json.Marshal(n)
		out = append(out, b)
	}
	n := len(c.Entries)
	for chunk := n / 2; chunk >= 1; chunk /= 2 {
		for i := 0; i+chunk <= n; i += chunk {
			nc := c
			nc.Entries = append(append([]PEntry(nil), c.Entries[:i]...), c.Entries[i+chunk:]...)
			emit(nc)
		}
	}
	if c.OrderMode != 0 {
		nc := c
		nc.OrderMode = 0
		emit(nc)
	}
	for i, e := range c.Entries {
		if len(e.Items) > 1 {
			for j := range e.Items {
				nc := c
				nc.Entries = append([]PEntry(nil), c.Entries...)
				ne := e
				ne.Items = append(append([]PItem(nil), e.Items[:j]...), e.Items[j+1:]...)
				nc.Entries[i] = ne
				emit(nc)
			}
		}
		if e.It.Meta != nil {
			nc := c
			nc.Entries = append([]PEntry(nil), c.Entries...)
			ne := e
			ne.It.Meta = nil
			nc.Entries[i] = ne
			emit(nc)
		}
		if e.It.Lvl != 0 {
			nc := c
			nc.Entries = append([]PEntry(nil), c.Entries...)
			ne := e
			ne.It.Lvl = 0
			nc.Entries[i] = ne
			emit(nc)
		}
	}
	return out
}

// ---------------------------------------------------------------------------
// C04: every cut point

func contentsKey(d *index.VerifState) string {
	var sb strings.Builder
	fmt.Fprintf(&sb, "len=%d bytes=%d n=%d;", d.Len, d.DataBytes, len(d.Vertices))
	for _, v := range d.Vertices {
		fmt.Fprintf(&sb, "%s/", v.Id)
		for _, x := range v.Vector {
			fmt.Fprintf(&sb, "%08x", math.Float32bits(x))
		}
		ks := make([]string, 0, len(v.Metadata))
		for k, val := range v.Metadata {
			ks = append(ks, fmt.Sprintf("%q=%q", k, val))
		}
		sort.Strings(ks)
		sb.WriteString(strings.Join(ks, ","))
		sb.WriteString(";")
	}
	return sb.String()
}

func diffContents(a, b *index.VerifState) string {
	if a.Len != b.Len {
		return fmt.Sprintf("len-counter: %d vs %d", a.Len, b.Len)
	}
	if a.DataBytes != b.DataBytes {
		return fmt.Sprintf("data-bytes-counter: %d vs %d", a.DataBytes, b.DataBytes)
	}
	if len(a.Vertices) != len(b.Vertices) {
		return fmt.Sprintf("item-set: %d vs %d items", len(a.Vertices), len(b.Vertices))
	}
	for i := range a.Vertices {
		x, y := a.Vertices[i], b.Vertices[i]
		if x.Id != y.Id {
			return fmt.Sprintf("item-set: %s vs %s", x.Id, y.Id)
		}
		if len(x.Vector) != len(y.Vector) {
			return "vector: length"
		}
		for j := range x.Vector {
			if math.Float32bits(x.Vector[j]) != math.Float32bits(y.Vector[j]) {
				return fmt.Sprintf("vector: id %s component %d", x.Id, j)
			}
		}
		if !metaEqual(x.Metadata, y.Metadata) {
			return fmt.Sprintf("metadata: id %s %v vs %v", x.Id, x.Metadata, y.Metadata)
		}
	}
	return ""
}

func execC04(raw json.RawMessage, wantLog bool) (out Outcome) {
	var c PartCase
	if err := json.Unmarshal(raw, &c); err != nil {
		out.Harness = err.Error()
		return
	}
	simrt.SetMode(simrt.ModePlain)
	var h uint64
	var logl []string
	logf := func(f string, a ...interface{}) {
		s := fmt.Sprintf(f, a...)
		h = simrt.HashBytes(h, []byte(s))
		if wantLog {
			logl = append(logl, s)
		}
	}
	where := "full-replay"
	defer func() {
		if r := recover(); r != nil {
			out.Violate("C04", "panic/"+topFrame(debug.Stack()), "panic during %s: %v | %s", where, r, trimStack(debug.Stack()))
		}
		out.TraceHash = h
		out.Log = logl
	}()
	n := len(c.Entries)
	data := make([][]byte, n)
	for i, e := range c.Entries {
		data[i] = e.marshal(i)
	}
	// reference replica A: applies everything, outcomes compared with the model
	A := newReplica(c, 0)
	m := &pModel{items: map[int]*mItem{}, dim: c.Dim}
	refOut := make([]applied, n)
	prefixDump := make([]string, n+1)
	prefixDump[0] = contentsKey(A.p.Dump())
	for i, e := range c.Entries {
		wantS, wantB := m.apply(e)
		refOut[i] = A.apply(e, i, data[i])
		logf("A entry %d type=%d -> %s", i, e.T, refOut[i].desc)
		if refOut[i].err != nil {
			out.Violate("C04", fmt.Sprintf("apply-error/change-type-%d", e.T), "entry %d: apply error %v", i, refOut[i].err)
			return
		}
		if !outcomeMatches(e, wantS, wantB, refOut[i].s, refOut[i].b) {
			out.Violate("C04", fmt.Sprintf("outcome-differs-from-sequential-map/change-type-%d", e.T), "entry %d: replica reported %s", i, refOut[i].desc)
		}
		prefixDump[i+1] = contentsKey(A.p.Dump())
	}
	finalA := A.p.Dump()
	if diff := dumpVsModel(finalA, m); diff != "" {
		out.Violate("C04", "contents-differ-from-sequential-map/"+firstWord(diff), "%s", diff)
	}
	// second full replay with another map order
	B := newReplica(c, 1)
	for i, e := range c.Entries {
		g := B.apply(e, i, data[i])
		if g.desc != refOut[i].desc {
			out.Violate("C04", fmt.Sprintf("outcome-differs-between-replicas/full-replay/change-type-%d", e.T), "entry %d: %s vs %s", i, refOut[i].desc, g.desc)
		}
	}
	if diff := diffContents(finalA, B.p.Dump()); diff != "" {
		out.Violate("C04", "replicas-diverge/full-replay/"+firstWord(diff), "two replicas that applied the same %d entries differ: %s", n, diff)
	}
	// every cut
	for cut := 0; cut <= n; cut++ {
		where = fmt.Sprintf("cut %d", cut)
		S := newReplica(c, uint64(2+cut))
		for i := 0; i < cut; i++ {
			S.apply(c.Entries[i], i, data[i])
		}
		S.use()
		snap, err := S.p.Snapshot()
		out.Stat("cuts", 1)
		emptyCut := len(S.p.Dump().Vertices) == 0
		cond := "nonempty-state"
		if emptyCut {
			cond = "empty-state"
			out.Stat("cuts_at_empty_state", 1)
		}
		if err != nil {
			out.Violate("C04", "snapshot-error/"+cond, "cut %d: snapshot failed: %v", cut, err)
			continue
		}
		targets := []string{"fresh"}
		if cut%3 == 1 || n <= 6 {
			targets = append(targets, "used")
		}
		if cut%4 == 2 {
			targets = append(targets, "double")
		}
		for _, tk := range targets {
			where = fmt.Sprintf("cut %d target %s", cut, tk)
			R := newReplica(c, uint64(100+cut))
			switch tk {
			case "used": // a lagging follower that had applied an older prefix and other garbage
				for i := 0; i < cut/2; i++ {
					R.apply(c.Entries[i], i, data[i])
				}
				out.Stat("restores_into_used_replica", 1)
			case "double":
				R.use()
				if err := R.p.Restore(snap); err == nil {
					if snap2, err := R.p.Snapshot(); err == nil {
						R = newReplica(c, uint64(200+cut))
						snap = snap2
					}
				}
				out.Stat("double_snapshots", 1)
			}
			R.use()
			if err := R.p.Restore(snap); err != nil {
				out.Violate("C04", "restore-error/"+cond+"/"+tk, "cut %d: a replica could not restore a snapshot taken by another replica: %v", cut, err)
				continue
			}
			if got := contentsKey(R.p.Dump()); got != prefixDump[cut] {
				diff := diffContents(S.p.Dump(), R.p.Dump())
				out.Violate("C04", "snapshot-differs-from-replay/"+cond+"/"+tk+"/"+firstWord(diff), "cut %d: restored snapshot differs from the replica that applied the same prefix: %s", cut, diff)
				continue
			}
			ok := true
			for i := cut; i < n; i++ {
				g := R.apply(c.Entries[i], i, data[i])
				if g.err != nil {
					out.Violate("C04", fmt.Sprintf("apply-error-after-restore/change-type-%d", c.Entries[i].T), "cut %d entry %d: %v", cut, i, g.err)
					ok = false
					break
				}
				if g.desc != refOut[i].desc {
					out.Violate("C04", fmt.Sprintf("outcome-differs-between-replicas/after-restore/change-type-%d", c.Entries[i].T), "cut %d (%s): entry %d reported %s on the restored replica, %s on the replaying one", cut, tk, i, g.desc, refOut[i].desc)
					ok = false
					break
				}
			}
			if !ok {
				continue
			}
			if diff := diffContents(finalA, R.p.Dump()); diff != "" {
				out.Violate("C04", "replicas-diverge/after-restore/"+firstWord(diff), "cut %d (%s): snapshot+suffix differs from full replay: %s", cut, tk, diff)
			}
		}
	}
	// snapshots that are kept while their author moves on: one replica takes a snapshot at
	// several positions of the log (raft's log store and the message that carries a snapshot
	// to a lagging follower hold on to those bytes), and only afterwards each of them is
	// restored by a fresh replica, which then applies the rest
	if n >= 2 {
		where = "kept snapshots"
		K := newReplica(c, 777)
		type kept struct {
			cut  int
			snap []byte
			dig  uint64
		}
		var ks []kept
		step := 1 + n/4
		for i := 0; i <= n; i++ {
			if i%step == 0 || i == n {
				K.use()
				if snap, err := K.p.Snapshot(); err == nil {
					ks = append(ks, kept{i, snap, simrt.HashBytes(7, snap)})
					out.Stat("snapshots_kept_while_the_author_moves_on", 1)
				}
			}
			if i < n {
				K.apply(c.Entries[i], i, data[i])
			}
		}
		for _, k := range ks {
			where = fmt.Sprintf("kept snapshot of cut %d", k.cut)
			changed := ""
			if simrt.HashBytes(7, k.snap) != k.dig {
				changed = " (the bytes handed out for it changed after a later snapshot was taken)"
			}
			R := newReplica(c, uint64(300+k.cut))
			R.use()
			if err := R.p.Restore(k.snap); err != nil {
				out.Violate("C04", "restore-error/kept-snapshot", "the snapshot taken at position %d could not be restored once its author had taken later snapshots%s: %v", k.cut, changed, err)
				continue
			}
			if got := contentsKey(R.p.Dump()); got != prefixDump[k.cut] {
				out.Violate("C04", "snapshot-differs-from-replay/kept-snapshot", "the snapshot taken at position %d, restored after its author had taken later snapshots, does not hold the state of that position%s", k.cut, changed)
				continue
			}
			ok := true
			for i := k.cut; i < n && ok; i++ {
				g := R.apply(c.Entries[i], i, data[i])
				if g.err != nil || g.desc != refOut[i].desc {
					out.Violate("C04", fmt.Sprintf("outcome-differs-between-replicas/after-restore-of-kept-snapshot/change-type-%d", c.Entries[i].T), "kept snapshot of position %d: entry %d reported %s, the replaying replica %s (err %v)", k.cut, i, g.desc, refOut[i].desc, g.err)
					ok = false
				}
			}
			if ok {
				if diff := diffContents(finalA, R.p.Dump()); diff != "" {
					out.Violate("C04", "replicas-diverge/after-restore-of-kept-snapshot/"+firstWord(diff), "kept snapshot of position %d + suffix differs from full replay: %s", k.cut, diff)
				}
			}
		}
	}
	logf("cuts=%d", n+1)
	out.Nontrivial = n >= 2
	return
}

func genC04(r *simrt.Rand, tier string) json.RawMessage {
	max := 24
	if tier == "thorough" {
		max = 60
	}
	b, _ := json.Marshal(genPartCase(r, max))
	return b
}

func init() {
	Register(&Check{
		ID:    "C02",
		Level: "exploration",
		Rule: "case = a log of 1..80 PartitionChange entries (all six kinds, 2..14 ids with repeats, batches with duplicates, rich metadata incl. over-limit shapes) applied through partition.process; " +
			"non-trivial = at least one entry changed the contents; distinct = distinct hash of the per-entry outcomes",
		Assumptions: []string{"entries are well-formed (valid 16-byte ids, vectors of the dataset dimension): malformed entries are C12's subject",
			"the per-item link estimate is bounded by 4 KiB per item for the default index parameters the partition uses"},
		Real:   []string{"storage.partition.process and the six apply functions", "utils.Notificator", "index.Hnsw", "protobuf codecs"},
		Stub:   []string{"raft (entries are handed to the apply function directly, hook H7)"},
		Probes: []string{"entries_type_0", "entries_type_1", "entries_type_2", "entries_type_3", "entries_type_4", "entries_type_5", "entries_with_expected_errors"},
		Budget: func(tier string) (int, time.Duration) {
			if tier == "thorough" {
				return 200000, 40 * time.Minute
			}
			return 10000, 4 * time.Minute
		},
		Gen:    genC02,
		Exec:   withSample(genC02, execC02),
		Shrink: shrinkPart, DeathSig: w3DeathSig("C02"),
	})
	Register(&Check{
		ID:    "C04",
		Level: "fault_enumeration",
		Rule: "case = a log of 1..60 PartitionChange entries; for EVERY cut 0..|log| a replica applies the prefix, snapshots, and a fresh replica (also a used one and a twice-snapshotted one) restores and applies the suffix, each replica with its own map order; " +
			"non-trivial = log of at least 2 entries; distinct = distinct hash of the reference replica's per-entry outcomes",
		Assumptions: []string{"entries are well-formed; equality is on contents (ids, bit-identical vectors, metadata, levels, counters), the graph may differ"},
		Real:        []string{"storage.partition process/snapshot/processSnapshot", "index.Hnsw Save/Load", "protobuf codecs"},
		Stub:        []string{"raft and the log store (entries and snapshots are passed between replicas in memory)"},
		Probes:      []string{"cuts", "cuts_at_empty_state", "restores_into_used_replica", "double_snapshots", "snapshots_kept_while_the_author_moves_on"},
		Budget: func(tier string) (int, time.Duration) {
			if tier == "thorough" {
				return 60000, 40 * time.Minute
			}
			return 4000, 4 * time.Minute
		},
		Gen:    genC04,
		Exec:   withSample(genC04, execC04),
		Shrink: shrinkPart, DeathSig: w3DeathSig("C04"),
	})
}
