package anndbverif

// Request-level checks on World III: C09 (dataset search = top-k of the union
// or a loud failure), C10 (routing is a stable function of the id), C11
// (truthful acknowledgements), C17 (dataset size = sum over partitions).

import (
	"context"
	"encoding/json"
	"fmt"
	"math"
	"math/big"
	"sort"
	"strings"
	"time"

	"github.com/marekgalovic/anndb/index"
	amath "github.com/marekgalovic/anndb/math"
	pb "github.com/marekgalovic/anndb/protobuf"
	uuid "github.com/satori/go.uuid"

	"simrt"
)

type sItem struct {
	id    uuid.UUID
	score float32
	meta  map[string]string
}

type searchRes struct {
	items []sItem
}

type sizeRes struct {
	n, bytes uint64
}

// startRead starts a search / size request (extends the scenario engine).
func (r *W3Run) startRead(h *histOp) {
	op := h.op
	n := r.s.nodes[op.Node-1]
	info := r.ds[op.DS]
	if info == nil || info.id == (uuid.UUID{}) {
		h.done, h.err = true, fmt.Errorf("no dataset")
		return
	}
	dsid := info.id.Bytes()
	switch op.K {
	case "search":
		h.cop = r.s.client(n, fmt.Sprintf("search k=%d", op.N), 8*time.Second, func(ctx context.Context, n *simNode) (interface{}, error) {
			fs := &fakeServerStream{ctx: ctx}
			err := n.svcSrch.Search(&pb.SearchRequest{DatasetId: dsid, Query: op.Q, K: uint32(op.N)}, srvStreamItems{fs})
			res := &searchRes{}
			for _, b := range fs.sent {
				var it pb.SearchResultItem
				if e := protoUnmarshal(b, &it); e == nil {
					id, _ := uuid.FromBytes(it.Id)
					res.items = append(res.items, sItem{id, it.Score, it.Metadata})
				}
			}
			return res, err
		})
	case "size":
		h.cop = r.s.client(n, "dataset-size", 8*time.Second, func(ctx context.Context, n *simNode) (interface{}, error) {
			resp, err := n.svcDM.GetDatasetSize(ctx, &pb.GetDatasetRequest{DatasetId: dsid})
			if err != nil {
				return nil, err
			}
			return &sizeRes{resp.GetLen(), resp.GetBytesSize()}, nil
		})
	}
}

// runRead executes a read synchronously and returns the legs it caused.
func (r *W3Run) runRead(op W3Op) (*histOp, []searchLeg) {
	s := r.s
	s.pump()
	legs0 := len(s.searchLegs)
	h := &histOp{op: op, idx: -1, tStart: s.now()}
	r.hist = append(r.hist, h)
	r.startRead(h)
	s.runUntil(func() bool { return h.cop == nil || h.cop.done }, 15*time.Second)
	if h.cop != nil && h.cop.done {
		h.done, h.err, h.res = true, h.cop.err, h.cop.res
	}
	// legs that were still executing when the caller gave up finish now
	s.runFor(200 * time.Millisecond)
	return h, append([]searchLeg(nil), s.searchLegs[legs0:]...)
}

// ---------------------------------------------------------------------------
// C09

type C09Case struct {
	W3       W3Case   `json:"w3"`
	Items    int      `json:"items"`
	Searches []W3Op   `json:"searches"`
	Down     []int    `json:"down,omitempty"`      // nodes crashed before the searches
	Cut      [][2]int `json:"cut,omitempty"`       // links blocked before the searches
	DropResp float64  `json:"drop_resp,omitempty"` // response loss during the searches
	Remove   int      `json:"remove,omitempty"`    // 1: the crashed node is then removed from the membership, 2: removed first, then taken out of service
	CutP     float64  `json:"cut_p,omitempty"`     // probability that a leg's answer stream breaks off after some of its items
	Overlap  int      `json:"overlap,omitempty"`   // searches are issued in groups of this many at the same instant (0/1: one at a time)
}

func genC09(r *simrt.Rand, tier string) json.RawMessage {
	c := C09Case{}
	c.W3 = W3Case{Nodes: r.Range(1, 4), Dim: 2, Space: r.Intn(2)}
	c.W3.Cfg = W3Cfg{Seed: r.Uint64(), Net: NetCfg{MinLatMs: 1, JitterMs: r.Range(0, 10)}, SnapshotOffset: 5000, YieldP: []int{0, 10, 40, 100}[r.Intn(4)]}
	c.W3.Partitions = r.Range(1, 8)
	c.W3.Replicas = r.Range(1, 3)
	if c.W3.Replicas > c.W3.Nodes {
		c.W3.Replicas = c.W3.Nodes
	}
	c.Items = r.Range(1, 14)
	ns := r.Range(2, 6)
	for i := 0; i < ns; i++ {
		q := []float32{float32(r.Range(-40, 40)) / 4, float32(r.Range(-40, 40)) / 4}
		c.Searches = append(c.Searches, W3Op{K: "search", Node: r.Range(1, c.W3.Nodes), Q: q, N: []int{1, 2, 3, 5, 10, 50}[r.Intn(6)]})
	}
	if r.Bool(0.3) {
		// several clients at once: searches are issued in groups at the same instant (each
		// with its own query, so that the simulator can tell their legs apart)
		c.Overlap = r.Range(2, 4)
		for len(c.Searches) < 2*c.Overlap {
			q := []float32{float32(r.Range(-40, 40)) / 4, float32(r.Range(-40, 40)) / 4}
			c.Searches = append(c.Searches, W3Op{K: "search", Node: r.Range(1, c.W3.Nodes), Q: q, N: []int{1, 2, 3, 5, 10, 50}[r.Intn(6)]})
		}
		for i := range c.Searches { // distinct queries
			c.Searches[i].Q[0] += float32(i) / 64
		}
	}
	if c.W3.Nodes > 1 && r.Bool(0.45) {
		switch r.Intn(5) {
		case 4:
			// the answer stream of a leg breaks off after some of its items (connection reset):
			// whoever asks again must not keep what the broken attempt delivered
			c.CutP = []float64{0.3, 0.6}[r.Intn(2)]
			if c.Items < 6 {
				c.Items = r.Range(6, 14)
			}
		case 3:
			// the node leaves the membership as well: the catalogue keeps listing it as a replica
			// (for good when it was the only one), yet nobody has an address for it any more
			c.Down = []int{r.Range(2, c.W3.Nodes)}
			c.Remove = r.Range(1, 2)
			if r.Bool(0.6) {
				c.W3.Replicas = 1
			}
		case 0:
			c.Down = []int{r.Range(2, c.W3.Nodes)}
		case 1:
			a := r.Range(1, c.W3.Nodes)
			c.Cut = [][2]int{{a, a%c.W3.Nodes + 1}}
		case 2:
			c.DropResp = 0.3
		}
	}
	b, _ := json.Marshal(c)
	return b
}

func execC09(raw json.RawMessage, wantLog bool) (out Outcome) {
	var c C09Case
	if err := json.Unmarshal(raw, &c); err != nil {
		out.Harness = err.Error()
		return
	}
	// distinct vectors: unique distances for most queries
	for i := 0; i < c.Items; i++ {
		c.W3.Ops = append(c.W3.Ops, W3Op{K: "ins", Node: i%c.W3.Nodes + 1, Ids: []int{i}, Vers: []int{i + 1}})
	}
	runScenario(&c.W3, "C09", &out, wantLog, nil, func(r *W3Run) {
		s := r.s
		if len(out.Violations) > 0 {
			return
		}
		r.waitAll(20 * time.Second)
		s.runFor(2 * time.Second)
		if !s.runUntil(r.converged, 60*time.Second) {
			out.Stat("setup_did_not_converge", 1)
			return
		}
		info := r.ds[0]
		allParts := map[uuid.UUID]bool{}
		if d := r.datasetOn(s.nodes[0], info.id); d != nil {
			for _, p := range d.Partitions {
				allParts[p.Id] = true
			}
		}
		faulty := len(c.Down) > 0 || len(c.Cut) > 0 || c.DropResp > 0 || c.CutP > 0
		if c.CutP > 0 {
			s.cfg.Net.CutStream = c.CutP
			s.faultsOn = true
		}
		removeNode := func(wait time.Duration) {
			target := s.nodes[c.Down[0]-1]
			for attempt := 0; attempt < 4; attempt++ {
				op := s.client(s.nodes[0], fmt.Sprintf("remove-node n%d", target.idx), 8*time.Second, func(ctx context.Context, n *simNode) (interface{}, error) {
					return n.svcNM.RemoveNode(ctx, &pb.Node{Id: target.id})
				})
				s.runUntil(func() bool { return op.done }, 12*time.Second)
				if op.done && op.err == nil {
					out.Stat("node_removed_from_membership", 1)
					break
				}
			}
			s.runFor(wait)
		}
		canRemove := c.Remove > 0 && len(c.Down) > 0 && c.Down[0] >= 2 && c.Down[0] <= len(s.nodes) && (len(s.nodes) >= 3 || c.Remove == 2) // a quorum must remain to commit the removal
		if canRemove && c.Remove == 2 {
			removeNode(500 * time.Millisecond)
		}
		for _, d := range c.Down {
			if d >= 1 && d <= len(s.nodes) {
				s.stopNode(s.nodes[d-1], true)
			}
		}
		if canRemove && c.Remove == 1 {
			removeNode(2 * time.Second)
		}
		for _, l := range c.Cut {
			s.blocked[[2]uint64{uint64(l[0]), uint64(l[1])}] = true
			s.blocked[[2]uint64{uint64(l[1]), uint64(l[0])}] = true
			out.Stat("fault_partition", 1)
		}
		if c.DropResp > 0 {
			s.cfg.Net.DropResp = c.DropResp
			s.faultsOn = true
		}
		type sres struct {
			op   W3Op
			h    *histOp
			legs []searchLeg
		}
		var results []sres
		for i := 0; i < len(c.Searches); {
			group := 1
			if c.Overlap > 1 {
				group = c.Overlap
			}
			if group == 1 {
				op := c.Searches[i]
				i++
				if op.Node < 1 || op.Node > len(s.nodes) || !s.nodes[op.Node-1].alive {
					continue
				}
				h, legs := r.runRead(op)
				results = append(results, sres{op, h, legs})
				continue
			}
			// several clients at the same instant
			s.pump()
			legs0 := len(s.searchLegs)
			var hs []sres
			for j := 0; j < group && i < len(c.Searches); j, i = j+1, i+1 {
				op := c.Searches[i]
				if op.Node < 1 || op.Node > len(s.nodes) || !s.nodes[op.Node-1].alive {
					continue
				}
				h := &histOp{op: op, idx: -1, tStart: s.now()}
				r.hist = append(r.hist, h)
				r.startRead(h)
				hs = append(hs, sres{op: op, h: h})
				if c.W3.Cfg.Seed%2 == 0 {
					// ... or a few milliseconds apart, so that one search starts while another is
					// already collecting its answers
					s.runFor(time.Duration(1+(c.W3.Cfg.Seed>>uint(8+j))%6) * time.Millisecond)
				}
			}
			s.runUntil(func() bool {
				for _, x := range hs {
					if x.h.cop != nil && !x.h.cop.done {
						return false
					}
				}
				return true
			}, 15*time.Second)
			s.runFor(200 * time.Millisecond)
			for _, x := range hs {
				if x.h.cop != nil && x.h.cop.done {
					x.h.done, x.h.err, x.h.res = true, x.h.cop.err, x.h.cop.res
				}
				x.legs = append([]searchLeg(nil), s.searchLegs[legs0:]...)
				results = append(results, x)
			}
			out.Stat("groups_of_overlapping_searches", 1)
		}
		for _, sr := range results {
			op, h, legs := sr.op, sr.h, sr.legs
			out.Stat("dataset_searches", 1)
			if !h.done {
				r.viol("search-never-returned", "Dataset.Search on n%d did not return within 15 simulated seconds", op.Node)
				continue
			}
			// what the legs say
			requested := map[uuid.UUID]int{}
			var union []sItem
			legFailed := false
			var myLegs []searchLeg
			for _, l := range legs {
				if l.from != s.nodes[op.Node-1].id || !sameVec(l.req.GetQuery(), op.Q) {
					continue
				}
				myLegs = append(myLegs, l)
				for _, pid := range l.req.GetPartitionIds() {
					u, _ := uuid.FromBytes(pid)
					requested[u]++
				}
				if l.err != nil {
					legFailed = true
				}
				for _, it := range l.items {
					u, _ := uuid.FromBytes(it.Id)
					union = append(union, sItem{u, it.Score, it.Metadata})
				}
			}
			// legs that never executed (node down, partitioned, request dropped) also count as failed
			executedParts := 0
			for _, k := range requested {
				executedParts += k
			}
			if h.err != nil {
				out.Stat("searches_failed_loudly", 1)
				if !faulty {
					r.viol("fault-free-search-failed", "no fault is active but Dataset.Search on n%d failed: %v", op.Node, h.err)
				}
				continue
			}
			res := h.res.(*searchRes)
			// success: every partition exactly once, no leg failed, result = top-k of the union
			for pid := range allParts {
				if requested[pid] != 1 {
					if requested[pid] == 0 {
						r.viol("success-although-a-partition-was-not-searched", "Dataset.Search on n%d returned success (%d items) but partition %s was not searched successfully (node down / unreachable / response lost)", op.Node, len(res.items), shortG(pid))
					} else {
						r.viol("partition-searched-more-than-once", "partition %s was searched %d times for one dataset search", shortG(pid), requested[pid])
					}
					break
				}
			}
			if legFailed {
				r.viol("success-although-a-leg-failed", "Dataset.Search returned success but one of its per-node searches failed")
			}
			if len(out.Violations) > 0 {
				continue
			}
			sort.SliceStable(union, func(i, j int) bool { return union[i].score < union[j].score })
			want := union
			if len(want) > op.N {
				want = want[:op.N]
			}
			bad := ""
			if len(res.items) != len(want) {
				bad = fmt.Sprintf("returned %d items, the %d partitions answered %d in total, k=%d", len(res.items), len(allParts), len(union), op.N)
			} else {
				for i := range want {
					if res.items[i].score != want[i].score {
						bad = fmt.Sprintf("position %d has score %v, the k best of the union has %v there", i, res.items[i].score, want[i].score)
						break
					}
					// ids must match unless there is a tie on the score
					if res.items[i].id != want[i].id {
						tie := false
						for _, u := range union {
							if u.score == want[i].score && u.id == res.items[i].id {
								tie = true
							}
						}
						if !tie {
							bad = fmt.Sprintf("position %d is %s, the union says %s", i, res.items[i].id, want[i].id)
							break
						}
					}
				}
			}
			if bad != "" {
				cls := "wrong-merge"
				if len(res.items) == 0 && len(union) > 0 {
					cls = "empty-result-with-success"
				} else if len(res.items) < len(want) {
					cls = "partial-result-with-success"
				}
				r.viol(cls, "Dataset.Search(k=%d) on n%d over %d partitions / %d legs: %s", op.N, op.Node, len(allParts), len(myLegs), bad)
			}
			// each leg equals the merge of direct index searches on the same partition objects
			for _, l := range myLegs {
				tn := s.byId[l.to]
				if tn == nil || !tn.alive || l.err != nil {
					continue
				}
				d := r.datasetOn(tn, info.id)
				if d == nil {
					continue
				}
				var direct []sItem
				for _, pid := range l.req.GetPartitionIds() {
					u, _ := uuid.FromBytes(pid)
					for _, p := range d.Partitions {
						if p.Id == u {
							rs, _ := p.Index().Search(context.Background(), amath.Vector(l.req.GetQuery()), uint(l.req.GetK()))
							for _, it := range rs {
								direct = append(direct, sItem{it.Id, it.Score, it.Metadata})
							}
						}
					}
				}
				sort.SliceStable(direct, func(i, j int) bool { return direct[i].score < direct[j].score })
				if len(direct) > int(l.req.GetK()) {
					direct = direct[:l.req.GetK()]
				}
				same := len(direct) == len(l.items)
				for i := 0; same && i < len(direct); i++ {
					same = direct[i].score == l.items[i].Score
				}
				if !same {
					r.viol("leg-differs-from-direct-partition-searches", "SearchPartitions on n%d for %d partitions returned %d items; searching the same partition indexes directly and merging gives %d", tn.idx, len(l.req.GetPartitionIds()), len(l.items), len(direct))
				}
				out.Stat("legs_checked_against_direct_search", 1)
			}
			// every returned item carries the metadata it was inserted with (item i = version i+1)
			for _, it := range res.items {
				for i := 0; i < c.Items; i++ {
					if idOf(i) == it.id && !metaEqual(it.meta, metaOf(i, i+1, "ins")) {
						r.viol("wrong-metadata-in-result", "Dataset.Search on n%d returned id#%d with metadata %v, it was inserted with %v", op.Node, i, it.meta, metaOf(i, i+1, "ins"))
					}
				}
			}
			out.Stat("searches_checked_against_union", 1)
			if len(myLegs) > 1 {
				out.Stat("searches_with_several_legs", 1)
			}
		}
	})
	out.Nontrivial = out.Stats["dataset_searches"] > 0
	return
}

func sameVec(a, b []float32) bool {
	if len(a) != len(b) {
		return false
	}
	for i := range a {
		if a[i] != b[i] {
			return false
		}
	}
	return true
}

func shrinkC09(raw json.RawMessage) []json.RawMessage {
	var c C09Case
	if json.Unmarshal(raw, &c) != nil {
		return nil
	}
	var out []json.RawMessage
	emit := func(n C09Case) {
		b, _ := json.Marshal(n)
		out = append(out, b)
	}
	for i := range c.Searches {
		n := c
		n.Searches = append(append([]W3Op(nil), c.Searches[:i]...), c.Searches[i+1:]...)
		if len(n.Searches) > 0 {
			emit(n)
		}
	}
	if c.Items > 1 {
		n := c
		n.Items = c.Items / 2
		emit(n)
		n = c
		n.Items = c.Items - 1
		emit(n)
	}
	if c.W3.Partitions > 1 {
		n := c
		n.W3.Partitions = c.W3.Partitions - 1
		emit(n)
	}
	if c.W3.Cfg.YieldP > 0 {
		n := c
		n.W3.Cfg.YieldP = 0
		emit(n)
	}
	if len(c.Down) > 0 || len(c.Cut) > 0 || c.DropResp > 0 || c.CutP > 0 {
		n := c
		n.Down, n.Cut, n.DropResp, n.Remove, n.CutP = nil, nil, 0, 0, 0
		emit(n)
	}
	if c.Remove > 0 {
		n := c
		n.Remove = 0
		emit(n)
	}
	return out
}

// ---------------------------------------------------------------------------
// C10 / C11 (fault-free part): outcomes through any node and API path equal a sequential map

type seqModel struct {
	items map[int]int               // id -> version
	meta  map[int]map[string]string // id -> metadata a sequential map would hold (insert sets, update merges)
}

func (m *seqModel) apply(kind string, id, ver int, dimOK bool) string {
	if !dimOK && kind != "rem" {
		return "rejected"
	}
	_, ok := m.items[id]
	switch kind {
	case "ins":
		if ok {
			return "exists"
		}
		m.items[id] = ver
		if m.meta != nil {
			m.meta[id] = metaOf(id, ver, "ins")
		}
		return "ok"
	case "upd":
		if !ok {
			return "notfound"
		}
		m.items[id] = ver
		if m.meta != nil {
			merged := map[string]string{}
			for k, v := range m.meta[id] {
				merged[k] = v
			}
			for k, v := range metaOf(id, ver, "upd") {
				merged[k] = v
			}
			m.meta[id] = merged
		}
		return "ok"
	case "rem":
		if !ok {
			return "notfound"
		}
		delete(m.items, id)
		if m.meta != nil {
			delete(m.meta, id)
		}
		return "ok"
	}
	return "?"
}

// adversarialId: ids whose halves stress the routing arithmetic.
func idOfAdv(i int) uuid.UUID {
	var u uuid.UUID
	max := []byte{0xff, 0xff, 0xff, 0xff, 0xff, 0xff, 0xff, 0xff}
	switch i % 7 {
	case 1:
		copy(u[:8], max)
		copy(u[8:], max)
		u[0] = byte(i)
	case 2:
		u[15] = byte(i) + 1
	case 3:
		copy(u[8:], max)
		u[3] = byte(i)
	case 4:
		u = idOf(i)
		copy(u[8:], u[:8])
	default:
		u = idOf(i)
	}
	return u
}

func genC10(r *simrt.Rand, tier string) json.RawMessage {
	c := W3Case{Nodes: r.Range(1, 4), Dim: 2, Space: 0}
	c.Cfg = W3Cfg{Seed: r.Uint64(), Net: NetCfg{MinLatMs: 1, JitterMs: r.Range(0, 8)}, SnapshotOffset: []int64{4, 5000}[r.Intn(2)], YieldP: []int{0, 10}[r.Intn(2)]}
	c.Partitions = r.Range(1, 8)
	c.Replicas = r.Range(1, 2)
	if c.Replicas > c.Nodes {
		c.Replicas = c.Nodes
	}
	ver := 0
	nIds := r.Range(3, 12)
	c.Ops = genWrites(r, c.Nodes, r.Range(4, 14), nIds, &ver, 0)
	for i := range c.Ops {
		// a batch in which one item has the wrong dimension: it is refused, the others are routed as ever
		if (c.Ops[i].K == "bins" || c.Ops[i].K == "bupd") && len(c.Ops[i].Ids) > 1 && r.Bool(0.2) {
			c.Ops[i].Dim = []int{1, 3, 5}[r.Intn(3)]
			c.Ops[i].DimAt = r.Range(1, len(c.Ops[i].Ids))
		}
	}
	if tier == "thorough" && r.Bool(0.03) || tier != "thorough" && r.Bool(0.015) {
		// many partitions (the property quantifies over 1..1024): one node, few operations
		c.Nodes, c.Replicas = 1, 1
		c.Partitions = []int{r.Range(257, 400), r.Range(400, 700), r.Range(700, 1024)}[r.Intn(3)]
		ver = 0
		// the same ids through the batch path and the single-item path
		c.Ops = nil
		ids := []int{}
		vers := []int{}
		for j := 0; j < 10; j++ {
			ver++
			ids = append(ids, 100+j)
			vers = append(vers, ver)
		}
		c.Ops = append(c.Ops, W3Op{K: "bins", Node: 1, Ids: ids, Vers: vers})
		for j := 0; j < 10; j++ {
			ver++
			c.Ops = append(c.Ops, W3Op{K: []string{"upd", "ins", "rem"}[r.Intn(3)], Node: 1, Ids: []int{100 + j}, Vers: []int{ver}})
		}
		ver++
		c.Ops = append(c.Ops, W3Op{K: "ins", Node: 1, Ids: []int{300}, Vers: []int{ver}})
		c.Ops = append(c.Ops, W3Op{K: "brem", Node: 1, Ids: []int{300, 101, 102}, Vers: []int{0, 0, 0}})
		c.Cfg.SnapshotOffset = 5000
		c.Cfg.YieldP = 0
		b, _ := json.Marshal(c)
		return b
	}
	if r.Bool(0.6) {
		k := r.Range(1, len(c.Ops))
		ops := append([]W3Op(nil), c.Ops[:k]...)
		if r.Bool(0.6) {
			ops = append(ops, W3Op{K: "svcread", Node: r.Range(1, c.Nodes), A: r.Intn(2)})
		}
		if r.Bool(0.5) {
			ops = append(ops, W3Op{K: "wait", Ms: 10500}) // lets the zero group compact its log (threshold knob)
			c.Cfg.SnapshotOffset = []int64{1, 2}[r.Intn(2)]
		}
		ops = append(ops, W3Op{K: "crashall"}, W3Op{K: "wait", Ms: 300})
		for i := 1; i <= c.Nodes; i++ {
			ops = append(ops, W3Op{K: "restart", Node: i})
		}
		ops = append(ops, W3Op{K: "settle"})
		c.Ops = append(ops, c.Ops[k:]...)
	}
	b, _ := json.Marshal(c)
	return b
}

// execRouting runs a fault-free scenario in which every outcome must equal
// the sequential map model, whatever node and API path an operation used.
func execRouting(prop string, raw json.RawMessage, wantLog bool) (out Outcome) {
	var c W3Case
	if err := json.Unmarshal(raw, &c); err != nil {
		out.Harness = err.Error()
		return
	}
	runScenario(&c, prop, &out, wantLog, nil, func(r *W3Run) {
		if len(out.Violations) > 0 {
			return
		}
		r.waitAll(20 * time.Second)
		if !r.settle() {
			if len(out.Violations) == 0 {
				r.viol("no-convergence/"+stuckClass(r), "fault-free scenario did not converge: %s", r.describeStuck())
			}
			return
		}
		r.s.runFor(3 * time.Second)
		info := r.ds[0]
		m := &seqModel{items: map[int]int{}, meta: map[int]map[string]string{}}
		kindOf := map[string]string{"ins": "ins", "upd": "upd", "rem": "rem", "bins": "ins", "bupd": "upd", "brem": "rem"}
		for _, h := range r.hist {
			k, ok := kindOf[h.op.K]
			if !ok || h.op.DS != 0 {
				continue
			}
			for i, id := range h.op.Ids {
				dimOK := itemDimOK(h.op, i, info.dim)
				ver := 0
				if i < len(h.op.Vers) {
					ver = h.op.Vers[i]
				}
				want := m.apply(k, id, ver, dimOK)
				got := "unknown"
				if h.done {
					got = h.perId[id]
				}
				r.out.Stat("outcomes_compared_with_sequential_map", 1)
				if got != want {
					path := "single"
					if strings.HasPrefix(h.op.K, "b") {
						path = "batch"
					}
					cls := "wrong-outcome"
					if got == "unknown" {
						cls = "fault-free-write-failed"
					} else if want == "ok" || got == "ok" {
						cls = "operation-did-not-find-the-item-where-another-path-put-it"
						if got == "ok" && want == "rejected" {
							cls = "wrong-dimension-accepted"
						}
					}
					r.viol(cls+"/"+path, "%s id#%d through n%d (%s path) reported %q, a sequential map says %q (err=%v)", h.op.K, id, h.op.Node, path, got, want, h.err)
					return
				}
			}
		}
		// placement: every id lives in exactly one partition, on that partition's replicas only, in the version the model holds
		dumps := r.replicaDumps(info.id)
		where := map[uuid.UUID]uuid.UUID{}
		count := 0
		byUUID := map[uuid.UUID]int{}
		for id := range m.items {
			byUUID[idOf(id)] = id
		}
		for pid, reps := range dumps {
			for _, d := range reps {
				for _, v := range d.Vertices {
					if p, ok := where[v.Id]; ok && p != pid {
						r.viol("id-stored-in-two-partitions", "id %s is stored in partition %s and in partition %s", v.Id, shortG(p), shortG(pid))
						return
					}
					where[v.Id] = pid
					// the partition is the one the id belongs to by the stated rule, computed here with
					// arbitrary-precision arithmetic from the id and the partition count alone
					if d0 := r.datasetOn(r.aliveNodes()[0], info.id); d0 != nil && len(d0.Partitions) == info.p {
						if want := d0.Partitions[ownerOf(v.Id, info.p)].Id; want != pid {
							r.viol("id-stored-in-a-partition-that-does-not-own-it", "id %s is stored in partition %s; by ((lo64 mod n)+(hi64 mod n)) mod n with n=%d it belongs to partition #%d = %s", v.Id, shortG(pid), info.p, ownerOf(v.Id, info.p), shortG(want))
							return
						}
						r.out.Stat("owners_checked_with_independent_arithmetic", 1)
					}
					// the stored value and metadata are what a sequential map holds after the same operations
					if id, ok := byUUID[v.Id]; ok {
						ver := m.items[id]
						want := vecOf(id, ver, info.dim)
						same := len(want) == len(v.Vector)
						for j := 0; same && j < len(want); j++ {
							same = want[j] == v.Vector[j]
						}
						if !same {
							r.viol("stored-value-differs-from-sequential-map", "id#%d in partition %s holds %v, a sequential map holds version %d = %v", id, shortG(pid), v.Vector, ver, want)
							return
						}
						if !metaEqual(v.Metadata, m.meta[id]) {
							r.viol("stored-metadata-differs-from-sequential-map", "id#%d (version %d) in partition %s holds metadata %v, a sequential map (insert sets, update merges, new keys win) holds %v", id, ver, shortG(pid), v.Metadata, m.meta[id])
							return
						}
						r.out.Stat("stored_items_compared_with_sequential_map", 1)
					}
				}
			}
			count++
		}
		for id, ver := range m.items {
			u := idOf(id)
			if _, ok := where[u]; !ok {
				r.viol("acknowledged-item-missing", "id#%d (version %d) was acknowledged but no partition holds it", id, ver)
				return
			}
		}
		if len(where) != len(m.items) {
			r.viol("unexpected-items", "partitions hold %d distinct ids, the model %d", len(where), len(m.items))
		}
		r.out.Stat("placements_checked", int64(len(where)))
		r.checkReplicasEqual(prop)
	})
	out.Nontrivial = out.Stats["outcomes_compared_with_sequential_map"] > 2
	return
}

func sameMetaUnused(a, b map[string]string) bool {
	if len(a) != len(b) {
		return false
	}
	for k, v := range a {
		if w, ok := b[k]; !ok || w != v {
			return false
		}
	}
	return true
}

// ownerOf: index of the partition an id belongs to: ((lo64 mod n) + (hi64 mod n)) mod n,
// the two halves read as little-endian integers; computed with big integers so that
// nothing depends on how the machine arithmetic of the product wraps.
func ownerOf(id uuid.UUID, n int) int {
	half := func(b []byte) *big.Int {
		rev := make([]byte, len(b))
		for i := range b {
			rev[len(b)-1-i] = b[i]
		}
		return new(big.Int).SetBytes(rev)
	}
	nn := big.NewInt(int64(n))
	lo := new(big.Int).Mod(half(id[:8]), nn)
	hi := new(big.Int).Mod(half(id[8:]), nn)
	return int(new(big.Int).Mod(new(big.Int).Add(lo, hi), nn).Int64())
}

func execC10(raw json.RawMessage, wantLog bool) Outcome { return execRouting("C10", raw, wantLog) }

// ---------------------------------------------------------------------------
// C11

func genC11(r *simrt.Rand, tier string) json.RawMessage {
	c := W3Case{Nodes: r.Range(1, 3), Dim: 2, Space: 0}
	c.Cfg = W3Cfg{Seed: r.Uint64(), Net: NetCfg{MinLatMs: 1, JitterMs: r.Range(0, 12)}, SnapshotOffset: 5000, YieldP: []int{0, 10, 40}[r.Intn(3)]}
	c.Partitions = r.Range(1, 4)
	c.Replicas = r.Range(1, 3)
	if c.Replicas > c.Nodes {
		c.Replicas = c.Nodes
	}
	ver := 0
	nIds := r.Range(2, 8)
	c.Ops = genWrites(r, c.Nodes, r.Range(4, 12), nIds, &ver, 0.4)
	// wrong-dimension items
	for i := range c.Ops {
		if c.Ops[i].K != "rem" && c.Ops[i].K != "brem" && r.Bool(0.15) {
			c.Ops[i].Dim = []int{1, 3, 5}[r.Intn(3)]
			if strings.HasPrefix(c.Ops[i].K, "b") && len(c.Ops[i].Ids) > 1 && r.Bool(0.7) {
				// one item of the batch has the wrong dimension, the others are fine
				c.Ops[i].DimAt = r.Range(1, len(c.Ops[i].Ids))
			}
		}
	}
	mode := r.Intn(8)
	if mode == 5 && c.Nodes < 3 {
		mode = 3
	}
	if mode <= 1 { // exact comparison with a sequential map needs non-overlapping operations
		for i := range c.Ops {
			c.Ops[i].Async = false
		}
	}
	switch mode {
	case 7:
		// the dataset is deleted while writes are in flight: the partitions' raft groups are
		// unloaded under the waiting proposers, who must not read that as "applied"
		for i := range c.Ops {
			c.Ops[i].Async = true
			c.Ops[i].Ms = r.Range(0, 6)
		}
		k := r.Range(1, len(c.Ops))
		ops := append([]W3Op{{K: "track-items"}}, c.Ops[:k]...)
		ops = append(ops, W3Op{K: "delds", Node: r.Range(1, c.Nodes)})
		c.Ops = append(ops, c.Ops[k:]...)
		if r.Bool(0.5) {
			c.Ops = append([]W3Op{{K: "pause-proposers"}}, c.Ops...)
		}
	case 6:
		// impatient callers: every proposer is held between Propose and its wait while the
		// entry is applied, and some callers' deadlines expire meanwhile - they leave with
		// "deadline exceeded" although their outcome was (or is being) delivered; nobody
		// else may ever receive it
		for i := range c.Ops {
			c.Ops[i].Async = false
			if r.Bool(0.4) {
				c.Ops[i].DlMs = r.Range(40, 280)
			}
		}
		c.Ops = append([]W3Op{{K: "overlap-mode"}, {K: "pause-proposers"}}, c.Ops...)
	case 4: // overlapping callers, no faults: outcomes must be linearizable and none may be lost
		c.Ops = append([]W3Op{{K: "overlap-mode"}}, c.Ops...)
		if r.Bool(0.5) {
			c.Ops = append([]W3Op{{K: "pause-proposers"}}, c.Ops...)
		}
	case 1: // pause every proposer between Propose and its wait until the entry has been applied
		c.Ops = append([]W3Op{{K: "pause-proposers"}}, c.Ops...)
	case 2: // faults: the outcome may be unknown, but never a false success
		c.Faults = true
		c.Cfg.Net = genNet(r)
		if c.Nodes > 1 {
			k := r.Range(0, len(c.Ops))
			ops := append([]W3Op(nil), c.Ops[:k]...)
			ops = append(ops, W3Op{K: []string{"crash", "isolate"}[r.Intn(2)], Node: r.Range(1, c.Nodes)})
			c.Ops = append(ops, c.Ops[k:]...)
		}
	case 5: // a node is removed from the membership and its process keeps running (the operator forgot to stop it)
		{
			k := r.Range(0, len(c.Ops))
			ops := append([]W3Op(nil), c.Ops[:k]...)
			victim := r.Range(2, c.Nodes)
			ops = append(ops, W3Op{K: "removenode", Node: 1, A: victim}, W3Op{K: "wait", Ms: r.Range(1500, 6000)})
			c.Ops = append(ops, c.Ops[k:]...)
			if r.Bool(0.7) {
				c.Replicas = 1
			}
			for i := k; i < len(c.Ops); i++ {
				switch c.Ops[i].K {
				case "ins", "upd", "rem", "bins", "bupd", "brem":
					if c.Ops[i].Node == victim {
						c.Ops[i].Node = 1
					}
				}
			}
			c.Faults = true
			c.Cfg.Net = NetCfg{MinLatMs: 1, JitterMs: 3}
		}
	case 3: // the owner is removed from the address book
		if c.Nodes > 1 {
			k := r.Range(0, len(c.Ops))
			ops := append([]W3Op(nil), c.Ops[:k]...)
			victim := r.Range(2, c.Nodes)
			ops = append(ops, W3Op{K: "crash", Node: victim}, W3Op{K: "removenode", Node: 1, A: victim}, W3Op{K: "wait", Ms: 1500})
			c.Ops = append(ops, c.Ops[k:]...)
			if r.Bool(0.7) {
				c.Replicas = 1 // the removed node is then the only host of its partitions
			}
			// operations after the removal enter through the surviving nodes
			for i := k; i < len(c.Ops); i++ {
				switch c.Ops[i].K {
				case "ins", "upd", "rem", "bins", "bupd", "brem":
					if c.Ops[i].Node == victim {
						c.Ops[i].Node = 1
					}
				}
			}
			c.Faults = true
			c.Cfg.Net = NetCfg{MinLatMs: 1, JitterMs: 3}
		}
	}
	b, _ := json.Marshal(c)
	return b
}

func execC11(raw json.RawMessage, wantLog bool) (out Outcome) {
	var c W3Case
	if err := json.Unmarshal(raw, &c); err != nil {
		out.Harness = err.Error()
		return
	}
	faulty := c.Faults
	for _, op := range c.Ops {
		switch op.K {
		case "crash", "crashall", "isolate", "part", "oneway", "removenode":
			faulty = true
		}
	}
	overlap := false
	for _, op := range c.Ops {
		if op.K == "overlap-mode" {
			overlap = true
		}
	}
	deleted := false
	for _, op := range c.Ops {
		if op.K == "delds" {
			deleted = true
		}
	}
	if deleted {
		runScenario(&c, "C11", &out, wantLog, nil, func(r *W3Run) {
			if len(out.Violations) > 0 {
				return
			}
			r.waitAll(20 * time.Second)
			r.s.runFor(2 * time.Second)
			kindNo := map[string]int{"ins": 0, "upd": 1, "rem": 2, "bins": 0, "bupd": 1, "brem": 2}
			for _, h := range r.hist {
				kn, ok := kindNo[h.op.K]
				if !ok || !h.done {
					continue
				}
				for i, id := range h.op.Ids {
					if h.perId[id] != "ok" {
						continue
					}
					ver := 0
					if kn != 2 && i < len(h.op.Vers) {
						ver = h.op.Vers[i]
					}
					r.out.Stat("acknowledged_writes", 1)
					if !r.s.appliedItems[fmt.Sprintf("%d/%x/%d", kn, idOf(id).Bytes(), ver)] {
						r.viol("acknowledged-write-not-applied/dataset-deleted-meanwhile", "%s of id#%d (version %d) through n%d was acknowledged with success, but no replica ever applied an entry that carries it (the dataset was deleted while it was in flight)", h.op.K, id, ver, h.op.Node)
						return
					}
					r.out.Stat("acknowledged_writes_found_among_the_applied_entries", 1)
				}
			}
			r.checkNoDeath()
		})
		out.Stat("dataset_deleted_under_traffic_runs", 1)
		out.Nontrivial = out.Stats["client_writes"] > 0
		return
	}
	if !faulty && !overlap {
		// fault-free (incl. paused proposers): exact outcomes, exact batch error maps.
		// The comparison with a sequential map needs callers that do not overlap: two
		// overlapping callers reach Propose in either order. (The generator left the
		// overlap flags on in one corner - owner-removal mode drawn for a one-node
		// cluster - and the exact oracle then took a legal reordering for a lost item.)
		anyAsync := false
		for i := range c.Ops {
			if c.Ops[i].Async {
				c.Ops[i].Async, anyAsync = false, true
			}
		}
		if anyAsync {
			raw, _ = json.Marshal(c)
		}
		out = execRouting("C11", raw, wantLog)
		out.Stat("fault_free_exact_outcome_runs", 1)
		return
	}
	if overlap {
		runScenario(&c, "C11", &out, wantLog, nil, func(r *W3Run) {
			if len(out.Violations) > 0 {
				return
			}
			r.waitAll(20 * time.Second)
			for _, h := range r.hist {
				for i, id := range h.op.Ids {
					if h.op.DlMs > 0 && h.done && h.perId[id] == "unknown" {
						r.out.Stat("callers_that_left_on_their_own_deadline", 1)
						continue // the caller's own deadline struck: legal, the write is indeterminate
					}
					if !h.done || h.perId[id] == "unknown" {
						r.viol("fault-free-write-failed/overlapping-callers", "no fault is active, yet %s of id#%d through n%d did not get its outcome: %v", h.op.K, id, h.op.Node, h.err)
						return
					}
					if !itemDimOK(h.op, i, r.ds[0].dim) && h.perId[id] != "rejected" {
						r.viol("wrong-dimension-accepted", "%s of id#%d with a wrong dimension reported %q", h.op.K, id, h.perId[id])
						return
					}
				}
			}
			r.s.runFor(3 * time.Second)
			if !r.s.runUntil(r.converged, 60*time.Second) {
				r.viol("no-convergence/"+stuckClass(r), "fault-free run did not converge: %s", r.describeStuck())
				return
			}
			r.durabilityOracle("C11")
		})
		out.Stat("overlapping_caller_runs", 1)
		out.Nontrivial = out.Stats["acknowledged_writes"] > 0
		return
	}
	runScenario(&c, "C11", &out, wantLog, nil, func(r *W3Run) {
		if len(out.Violations) > 0 {
			return
		}
		r.waitAll(20 * time.Second)
		// wrong dimension => rejected, whatever the faults
		for _, h := range r.hist {
			if h.op.Dim != 0 && h.op.Dim != r.ds[0].dim && h.done {
				for i, id := range h.op.Ids {
					if h.perId[id] == "ok" && !itemDimOK(h.op, i, r.ds[0].dim) {
						r.viol("wrong-dimension-accepted", "%s of id#%d with a %d-dimensional vector into a %d-dimensional dataset was acknowledged", h.op.K, id, h.op.Dim, r.ds[0].dim)
						return
					}
				}
			}
		}
		removed := false
		for _, op := range c.Ops {
			if op.K == "removenode" {
				removed = true
			}
		}
		if removed {
			// the removed node stays down; the others must agree among themselves
			r.s.faultsOn = false
			r.s.blocked = map[[2]uint64]bool{}
			r.waitAll(20 * time.Second)
			r.s.runFor(15 * time.Second)
			// a removed node whose process was left running is taken out of service now: what it
			// still holds is not a replica any more and must not be read as one
			for _, op := range c.Ops {
				if op.K == "removenode" && op.A >= 1 && op.A <= len(r.s.nodes) && r.s.nodes[op.A-1].alive {
					r.s.pump()
					r.s.stopNode(r.s.nodes[op.A-1], true)
					if r.firstPermanentCrash == 0 {
						r.firstPermanentCrash = r.s.stamp()
					}
				}
			}
		} else if !r.settle() {
			if len(out.Violations) == 0 {
				r.viol("no-convergence/"+stuckClass(r), "did not converge after faults stopped: %s", r.describeStuck())
			}
			return
		}
		r.s.runFor(6 * time.Second)
		r.truthOracle("C11", removed)
	})
	out.Stat("faulty_runs", 1)
	out.Nontrivial = out.Stats["acknowledged_writes"] > 0
	return
}

// truthOracle: an acknowledged write must have been applied on the owner
// partition (any replica that is alive shows it, unless a later acknowledged
// or in-flight write explains the difference).
func (r *W3Run) truthOracle(prop string, partial bool) {
	if !partial {
		r.durabilityOracle(prop)
		return
	}
	// some replicas are gone for good: use what the surviving replicas hold; ids
	// whose partition has no surviving replica cannot be judged
	info := r.ds[0]
	dumps := r.replicaDumps(info.id)
	held := map[uuid.UUID]int{}
	partAlive := map[uuid.UUID]bool{}
	for pid, reps := range dumps {
		for _, d := range reps {
			partAlive[pid] = true
			for _, v := range d.Vertices {
				if len(v.Vector) > 0 {
					held[v.Id] = int(v.Vector[0])
				}
			}
		}
	}
	// owner partition of an id, as the surviving nodes route it: ask the catalogue of node 1
	var d0 *partsView
	for _, n := range r.aliveNodes() {
		if d := r.datasetOn(n, info.id); d != nil {
			d0 = &partsView{}
			for _, p := range d.Partitions {
				d0.ids = append(d0.ids, p.Id)
			}
			break
		}
	}
	if d0 == nil {
		return
	}
	// whatever happened to the membership, an item is only ever stored in the partition
	// that owns its id
	if len(d0.ids) == info.p {
		for pid, reps := range dumps {
			for _, d := range reps {
				for _, v := range d.Vertices {
					if want := d0.ids[ownerOf(v.Id, info.p)]; want != pid {
						r.out.Violate(prop, "id-stored-in-a-partition-that-does-not-own-it", "id %s is stored in partition %s; by ((lo64 mod n)+(hi64 mod n)) mod n with n=%d it belongs to partition #%d = %s", v.Id, shortG(pid), info.p, ownerOf(v.Id, info.p), shortG(want))
						return
					}
					r.out.Stat("owners_checked_with_independent_arithmetic", 1)
				}
			}
		}
	}
	// per id: the last acknowledged successful write, if no later write on that id is in doubt
	type last struct {
		kind string
		ver  int
		h    *histOp
	}
	lastAck := map[int]*last{}
	doubt := map[int]bool{}
	kindOf := map[string]string{"ins": "ins", "upd": "upd", "rem": "rem", "bins": "ins", "bupd": "upd", "brem": "rem"}
	for _, h := range r.hist {
		k, ok := kindOf[h.op.K]
		if !ok {
			continue
		}
		for i, id := range h.op.Ids {
			res := "unknown"
			if h.done {
				res = h.perId[id]
			}
			switch res {
			case "ok":
				ver := 0
				if i < len(h.op.Vers) {
					ver = h.op.Vers[i]
				}
				lastAck[id] = &last{k, ver, h}
				doubt[id] = false
				r.out.Stat("acknowledged_writes", 1)
			case "unknown":
				doubt[id] = true
				r.out.Stat("indeterminate_writes", 1)
			}
		}
	}
	for id, l := range lastAck {
		if doubt[id] {
			continue
		}
		// concurrent acknowledged writes on the same id make "last" ambiguous: only judge when no other write overlaps
		overl := false
		for _, h := range r.hist {
			if h == l.h {
				continue
			}
			for _, hid := range h.op.Ids {
				if hid == id && h.inv < l.h.ret && l.h.inv < h.ret {
					overl = true
				}
			}
		}
		if overl {
			continue
		}
		ver, present := held[idOf(id)]
		// is the owner partition of this id still served by somebody?
		servedSomewhere := false
		for pid := range partAlive {
			_ = pid
			servedSomewhere = true
		}
		if !servedSomewhere {
			continue
		}
		ownerKnown := false
		for _, reps := range dumps {
			for _, dd := range reps {
				for _, v := range dd.Vertices {
					if v.Id == idOf(id) {
						ownerKnown = true
					}
				}
			}
		}
		switch l.kind {
		case "ins", "upd":
			if !present || ver != l.ver {
				// the item may live in a partition whose replicas are all gone - but only a write
				// INVOKED before the first node went down for good can have landed there (its
				// answer may still have been on the way when the node died)
				if !ownerKnown && len(partAlive) < len(d0.ids) && r.firstPermanentCrash != 0 && l.h.inv < r.firstPermanentCrash {
					continue
				}
				r.out.Violate(prop, "acknowledged-write-not-applied", "%s of id#%d (version %d) through n%d was acknowledged with success, but no surviving replica holds it (present=%v version=%d); last error seen: %v", l.kind, id, l.ver, l.h.op.Node, present, ver, l.h.err)
				return
			}
		case "rem":
			if present {
				r.out.Violate(prop, "acknowledged-remove-not-applied", "remove of id#%d through n%d was acknowledged with success but a replica still holds version %d", id, l.h.op.Node, ver)
				return
			}
		}
	}
	r.out.Stat("truth_checks_on_surviving_replicas", 1)
}

type partsView struct{ ids []uuid.UUID }

// ---------------------------------------------------------------------------
// C17

type C17Case struct {
	W3     W3Case   `json:"w3"`
	Items  int      `json:"items"`
	Down   []int    `json:"down,omitempty"`
	Cut    [][2]int `json:"cut,omitempty"`
	Remove bool     `json:"remove,omitempty"`
	Churn  bool     `json:"churn,omitempty"` // sizes are asked while a joining node becomes a replica
	Lag    bool     `json:"lag,omitempty"`   // a node joins and is cut off from the leader once it knows the dataset, before it learns that it became a replica
}

func genC17(r *simrt.Rand, tier string) json.RawMessage {
	c := C17Case{}
	c.W3 = W3Case{Nodes: r.Range(1, 4), Dim: 2, Space: 0}
	c.W3.Cfg = W3Cfg{Seed: r.Uint64(), Net: NetCfg{MinLatMs: 1, JitterMs: r.Range(0, 10)}, SnapshotOffset: 5000, YieldP: []int{0, 10, 40, 100}[r.Intn(4)]}
	c.W3.Partitions = r.Range(1, 6)
	c.W3.Replicas = r.Range(1, 3)
	if c.W3.Replicas > c.W3.Nodes {
		c.W3.Replicas = c.W3.Nodes
	}
	c.Items = r.Range(1, 16)
	if r.Bool(0.12) {
		// under-replicated dataset; a node joins and is made a replica of every partition, and
		// sizes are asked all the while - on the joiner above all, whose own view of what it
		// hosts changes under the running requests
		c.W3.Nodes = r.Range(1, 3)
		c.W3.Replicas = c.W3.Nodes + 1
		c.W3.Partitions = r.Range(1, 4)
		c.Items = r.Range(4, 16)
		c.W3.Cfg.YieldP = []int{0, 10, 40, 100}[r.Intn(4)]
		c.W3.Cfg.Burst = []int{0, 30, 60}[r.Intn(3)]
		c.W3.Cfg.Deep = []int{0, 100, 400}[r.Intn(3)]
		c.Churn = true
		b, _ := json.Marshal(c)
		return b
	}
	if r.Bool(0.15) {
		// under-replicated dataset, then a lagging joiner
		c.W3.Nodes = r.Range(2, 3)
		c.W3.Replicas = c.W3.Nodes + 1
		c.W3.Cfg.YieldP = 0
		c.Lag = true
		b, _ := json.Marshal(c)
		return b
	}
	if c.W3.Nodes > 1 && r.Bool(0.5) {
		switch r.Intn(3) {
		case 0:
			c.Down = []int{r.Range(2, c.W3.Nodes)}
		case 1:
			a := r.Range(1, c.W3.Nodes)
			c.Cut = [][2]int{{a, a%c.W3.Nodes + 1}}
		case 2: // a host goes down and is removed from the membership: its partitions stay assigned to it
			if r.Bool(0.5) {
				c.W3.Nodes = 2 // the survivor then is a cluster of one
				if c.W3.Replicas > 2 {
					c.W3.Replicas = 2
				}
			}
			c.Down = []int{r.Range(2, c.W3.Nodes)}
			c.Remove = true
			if r.Bool(0.7) {
				c.W3.Replicas = 1
			}
		}
	}
	b, _ := json.Marshal(c)
	return b
}

func execC17(raw json.RawMessage, wantLog bool) (out Outcome) {
	var c C17Case
	if err := json.Unmarshal(raw, &c); err != nil {
		out.Harness = err.Error()
		return
	}
	for i := 0; i < c.Items; i++ {
		c.W3.Ops = append(c.W3.Ops, W3Op{K: "ins", Node: i%c.W3.Nodes + 1, Ids: []int{i}, Vers: []int{i + 1}})
	}
	runScenario(&c.W3, "C17", &out, wantLog, nil, func(r *W3Run) {
		s := r.s
		if len(out.Violations) > 0 {
			return
		}
		r.waitAll(20 * time.Second)
		s.runFor(2 * time.Second)
		if !s.runUntil(r.converged, 60*time.Second) {
			out.Stat("setup_did_not_converge", 1)
			return
		}
		info := r.ds[0]
		// per partition: len and the range of BytesSize over its replicas
		type pr struct {
			n          int
			bmin, bmax uint64
			hosts      []uint64
		}
		parts := map[uuid.UUID]*pr{}
		for _, n := range r.aliveNodes() {
			d := r.datasetOn(n, info.id)
			if d == nil {
				continue
			}
			for _, p := range d.Partitions {
				if !p.RaftLoaded {
					continue
				}
				x := parts[p.Id]
				if x == nil {
					x = &pr{n: p.Len, bmin: p.BytesSize, bmax: p.BytesSize, hosts: p.NodeIds}
					parts[p.Id] = x
				}
				if p.Len != x.n {
					out.Stat("replicas_disagree_on_len_at_quiescence", 1)
				}
				if p.BytesSize < x.bmin {
					x.bmin = p.BytesSize
				}
				if p.BytesSize > x.bmax {
					x.bmax = p.BytesSize
				}
			}
		}
		var wantN, wantBmin, wantBmax uint64
		sizes := map[int]int{}
		for _, x := range parts {
			wantN += uint64(x.n)
			wantBmin += x.bmin
			wantBmax += x.bmax
			sizes[x.n]++
		}
		if len(sizes) > 1 {
			out.Stat("partitions_with_different_sizes", 1)
		}
		faulty := len(c.Down) > 0 || len(c.Cut) > 0 || c.Lag
		rounds := 1
		if c.Churn {
			nj := s.addNode(joinList(len(s.nodes)+1, 1, len(s.nodes)))
			if err := s.startNode(nj); err != nil {
				return
			}
			pick := simrt.NewRand(c.W3.Cfg.Seed ^ 0x51e)
			t0 := s.now()
			for i := 0; i < 250 && s.now()-t0 < 8*time.Second; i++ {
				n := nj
				if pick.Bool(0.3) {
					n = s.nodes[pick.Intn(len(s.nodes))]
				}
				if !n.alive || r.datasetOn(n, info.id) == nil {
					s.runFor(5 * time.Millisecond)
					continue
				}
				before := c17Replicas(r, info.id)
				h, _ := r.runRead(W3Op{K: "size", Node: n.idx})
				out.Stat("size_requests", 1)
				out.Stat("size_requests_while_replica_sets_change", 1)
				if !h.done {
					r.viol("size-never-returned", "SizeInfo on n%d did not return within 15 simulated seconds", n.idx)
					return
				}
				if h.err != nil {
					out.Stat("size_failed_loudly", 1)
					continue
				}
				got := h.res.(*sizeRes)
				lo, hi, ok := c17Bounds(before, c17Replicas(r, info.id), len(parts))
				if ok && (got.n < lo || got.n > hi) {
					r.viol("len/outside-the-range-of-the-replicas/while-replica-sets-change", "SizeInfo on n%d reports %d items while a joining node is being made a replica; counting each of the %d partitions once, on any one of its replicas, gives between %d and %d", n.idx, got.n, len(parts), lo, hi)
					return
				}
				out.Stat("sizes_checked_against_replica_range", 1)
				if pick.Bool(0.5) {
					s.runFor(time.Duration(pick.Range(1, 30)) * time.Millisecond)
				}
			}
			return
		}
		if c.Lag {
			// A node joins. The primaries make it a replica of the under-replicated partitions
			// (catalogue entries); the joiner is cut off from the leader as soon as it knows the
			// dataset, so its own catalogue may not say yet that it hosts anything. A node that
			// picks it for a lookup gets a refusal (the size request fails loudly), never zero.
			nj := s.addNode(joinList(len(s.nodes)+1, 1, len(s.nodes)))
			if err := s.startNode(nj); err == nil {
				s.runUntil(func() bool { return r.datasetOn(nj, info.id) != nil || !nj.alive }, 20*time.Second)
				if l := s.zeroLeader(); l != nil && nj.alive {
					s.blocked[[2]uint64{nj.id, l.id}] = true
					s.blocked[[2]uint64{l.id, nj.id}] = true
					out.Stat("fault_partition", 1)
					if d := r.datasetOn(nj, info.id); d != nil {
						lagging := false
						for _, p := range d.Partitions {
							host := false
							for _, h := range p.NodeIds {
								host = host || h == nj.id
							}
							lagging = lagging || !host
						}
						if lagging {
							out.Stat("joiner_cut_off_before_it_learned_of_its_replicas", 1)
						}
					}
				}
				s.runFor(3 * time.Second) // the members record the joiner as a replica
				// one more node joins; the replica sets are full now, so it hosts nothing and has
				// to ask a replica of every partition - the cut-off joiner among them
				na := s.addNode(joinList(len(s.nodes)+1, 1, len(s.nodes)))
				if err := s.startNode(na); err == nil {
					s.runUntil(func() bool { return na.joined || !na.alive }, 30*time.Second)
					s.runUntil(func() bool { return r.datasetOn(na, info.id) != nil || !na.alive }, 20*time.Second)
					s.runFor(time.Second)
				}
				rounds = 6
			}
		}
		removeFirst := c.Remove && len(c.Down) > 0 && c.W3.Cfg.Seed%2 == 0
		if removeFirst && s.nodes[0].alive {
			// the node is removed from the membership while it is still up (so the change can
			// commit), then taken out of service; its partitions stay assigned to it
			target := s.nodes[c.Down[0]-1]
			for attempt := 0; attempt < 4; attempt++ {
				op := s.client(s.nodes[0], fmt.Sprintf("remove-node n%d", target.idx), 8*time.Second, func(ctx context.Context, n *simNode) (interface{}, error) {
					return n.svcNM.RemoveNode(ctx, &pb.Node{Id: target.id})
				})
				s.runUntil(func() bool { return op.done }, 12*time.Second)
				if op.done && op.err == nil {
					out.Stat("node_removed_from_membership", 1)
					break
				}
			}
			s.runFor(500 * time.Millisecond)
		}
		for _, d := range c.Down {
			if d >= 1 && d <= len(s.nodes) {
				s.stopNode(s.nodes[d-1], true)
			}
		}
		for _, l := range c.Cut {
			s.blocked[[2]uint64{uint64(l[0]), uint64(l[1])}] = true
			s.blocked[[2]uint64{uint64(l[1]), uint64(l[0])}] = true
			out.Stat("fault_partition", 1)
		}
		if c.Remove && !removeFirst && len(c.Down) > 0 && s.nodes[0].alive {
			target := s.nodes[c.Down[0]-1]
			for attempt := 0; attempt < 4; attempt++ {
				op := s.client(s.nodes[0], fmt.Sprintf("remove-node n%d", target.idx), 8*time.Second, func(ctx context.Context, n *simNode) (interface{}, error) {
					return n.svcNM.RemoveNode(ctx, &pb.Node{Id: target.id})
				})
				s.runUntil(func() bool { return op.done }, 12*time.Second)
				if op.done && op.err == nil {
					out.Stat("node_removed_from_membership", 1)
					break
				}
			}
			s.runFor(2 * time.Second)
		}
		// per partition the range of Len over the replicas loaded right now (lagging joiner scenario)
		type rg struct {
			lo, hi uint64
			who    string // which nodes have the partition loaded
		}
		var lastRange map[uuid.UUID]*rg
		replicaRange := func() (lo, hi uint64, n int) {
			now := map[uuid.UUID]*rg{}
			defer func() { lastRange = now }()
			for _, m := range s.nodes {
				if !m.alive || m.parts == nil {
					continue
				}
				if d := r.datasetOn(m, info.id); d != nil {
					for _, p := range d.Partitions {
						if !p.RaftLoaded {
							continue
						}
						x := now[p.Id]
						if x == nil {
							now[p.Id] = &rg{uint64(p.Len), uint64(p.Len), fmt.Sprintf("n%d ", m.idx)}
						} else {
							x.who += fmt.Sprintf("n%d ", m.idx)
							if uint64(p.Len) < x.lo {
								x.lo = uint64(p.Len)
							}
							if uint64(p.Len) > x.hi {
								x.hi = uint64(p.Len)
							}
						}
					}
				}
			}
			for _, x := range now {
				lo += x.lo
				hi += x.hi
			}
			return lo, hi, len(now)
		}
		for round := 0; round < rounds; round++ {
			for _, n := range s.nodes {
				if !n.alive {
					continue
				}
				legs0 := len(s.infoLegs)
				_, _, cntBefore := replicaRange()
				rangeBefore := lastRange
				rpc0 := s.rpcCount["/anndb_pb.DataManager/PartitionInfo"]
				h, _ := r.runRead(W3Op{K: "size", Node: n.idx})
				remote := s.rpcCount["/anndb_pb.DataManager/PartitionInfo"] - rpc0
				out.Stat("size_requests", 1)
				if remote > 0 {
					out.Stat("size_requests_with_remote_lookups", 1)
				}
				if !h.done {
					r.viol("size-never-returned", "SizeInfo on n%d did not return within 15 simulated seconds", n.idx)
					continue
				}
				if h.err != nil {
					out.Stat("size_failed_loudly", 1)
					if !faulty {
						r.viol("fault-free-size-failed", "no fault is active but SizeInfo on n%d failed: %v", n.idx, h.err)
					}
					continue
				}
				got := h.res.(*sizeRes)
				for _, leg := range s.infoLegs[legs0:] {
					if leg.ok && !leg.loaded {
						r.viol("partition-info/answered-by-a-node-that-does-not-host-the-partition", "SizeInfo on n%d succeeded with a lookup of partition %x that n%d answered although it does not host it", n.idx, leg.partition[:4], leg.to)
					}
				}
				if c.Lag {
					// A replica that has just been added is legitimately behind (sizes are read from
					// whatever replica is asked, not through the log). What must hold is that every
					// partition contributes the size of ONE of its loaded replicas: the answer lies
					// between the sums of the per-partition minima and maxima over the loaded
					// replicas right now; a node that does not host a partition contributes nothing
					// to that range, so a zero from it is below the range.
					// (replicas only grow while they catch up: lower bound from before the call,
					// upper bound from after it)
					// A replica that is loaded DURING the call starts from nothing: a partition
					// whose set of loaded replicas changed between the two observations has the
					// lower bound 0.
					_, hi, cnt := replicaRange()
					var lo uint64
					for pid, b := range rangeBefore {
						if a := lastRange[pid]; a != nil && a.who == b.who {
							lo += b.lo
						}
					}
					if cnt == len(parts) && cntBefore == len(parts) && (got.n < lo || got.n > hi) {
						r.viol("len/outside-the-range-of-the-replicas", "SizeInfo on n%d reports %d items; summing one loaded replica per partition gives between %d and %d", n.idx, got.n, lo, hi)
					}
					out.Stat("sizes_checked_against_replica_range", 1)
					continue
				}
				// could this node reach a replica of every partition?
				if got.n != wantN {
					cls := "wrong-sum"
					if got.n < wantN {
						cls = "smaller-than-the-sum"
					}
					if faulty {
						cls += "/while-a-lookup-could-not-succeed"
					}
					r.viol("len/"+cls, "SizeInfo on n%d reports %d items over %d partitions (%d remote lookups); the partitions hold %d in total (sizes %v)", n.idx, got.n, len(parts), remote, wantN, sizes)
					continue
				}
				if got.bytes < wantBmin || got.bytes > wantBmax {
					r.viol("bytes/wrong-sum", "SizeInfo on n%d reports %d bytes, the sum over partitions is within [%d,%d]", n.idx, got.bytes, wantBmin, wantBmax)
				}
				out.Stat("sizes_checked_against_sum", 1)
			}
		}
	})
	out.Nontrivial = out.Stats["size_requests"] > 0
	return
}

// c17Replicas: per partition what its replicas hold right now. A node that lists itself
// as a host of the partition but has not loaded it yet (the allocator loads
// asynchronously) counts as a replica that holds nothing so far: like a loaded replica
// that is still catching up, it is behind, not wrong.
type c17Part struct {
	lo, hi uint64
	loaded bool
	sig    string // which nodes are replicas (listed or loaded)
}

func c17Replicas(r *W3Run, dsid uuid.UUID) map[uuid.UUID]*c17Part {
	now := map[uuid.UUID]*c17Part{}
	for _, m := range r.s.nodes {
		if !m.alive || m.parts == nil {
			continue
		}
		if d := r.datasetOn(m, dsid); d != nil {
			for _, p := range d.Partitions {
				listed := false
				for _, h := range p.NodeIds {
					listed = listed || h == m.id
				}
				if !p.RaftLoaded && !listed {
					continue
				}
				v := uint64(p.Len)
				if !p.RaftLoaded {
					v = 0
				}
				x := now[p.Id]
				if x == nil {
					x = &c17Part{lo: v, hi: v}
					now[p.Id] = x
				}
				x.loaded = x.loaded || p.RaftLoaded
				x.sig += fmt.Sprintf("n%d:%v ", m.idx, p.RaftLoaded)
				if v < x.lo {
					x.lo = v
				}
				if v > x.hi {
					x.hi = v
				}
			}
		}
	}
	return now
}

// c17Bounds: the range a size request may report when every partition contributes what
// ONE of its replicas held at some instant between the two observations. Replicas only
// grow while they catch up (lower bound from before, upper bound from after); a
// partition whose replica set changed in between may have been counted on a replica
// that had nothing yet.
func c17Bounds(before, after map[uuid.UUID]*c17Part, nParts int) (lo, hi uint64, ok bool) {
	if len(before) != nParts || len(after) != nParts {
		return 0, 0, false
	}
	for pid, b := range before {
		a := after[pid]
		if a == nil || !a.loaded || !b.loaded {
			return 0, 0, false
		}
		if a.sig == b.sig {
			lo += b.lo
		}
		hi += a.hi
	}
	return lo, hi, true
}

func shrinkC17(raw json.RawMessage) []json.RawMessage {
	var c C17Case
	if json.Unmarshal(raw, &c) != nil {
		return nil
	}
	var out []json.RawMessage
	emit := func(n C17Case) {
		b, _ := json.Marshal(n)
		out = append(out, b)
	}
	if c.Items > 1 {
		n := c
		n.Items = c.Items / 2
		emit(n)
		n = c
		n.Items = c.Items - 1
		emit(n)
	}
	if c.W3.Partitions > 1 {
		n := c
		n.W3.Partitions = c.W3.Partitions - 1
		emit(n)
	}
	if c.W3.Nodes > 1 {
		n := c
		n.W3.Nodes = c.W3.Nodes - 1
		if n.W3.Replicas > n.W3.Nodes {
			n.W3.Replicas = n.W3.Nodes
		}
		n.Down, n.Cut = nil, nil
		emit(n)
	}
	if c.W3.Cfg.YieldP > 0 {
		n := c
		n.W3.Cfg.YieldP = 0
		emit(n)
	}
	if len(c.Down) > 0 || len(c.Cut) > 0 {
		n := c
		n.Down, n.Cut = nil, nil
		emit(n)
	}
	return out
}

func init() {
	mk := func(id, level, rule string, probes []string, gen func(*simrt.Rand, string) json.RawMessage, exec func(json.RawMessage, bool) Outcome, shrink func(json.RawMessage) []json.RawMessage, q, t int) *Check {
		c := &Check{
			ID: id, Level: level, Rule: rule,
			Assumptions:  []string{"Badger's transactional durability is trusted", "scheduling is owned at hook / RPC / yield-point granularity (GOMAXPROCS=1, seeded select order, seeded Gosched at rewrite-inserted yield points)"},
			Real:         w3Real,
			Stub:         w3Stub,
			Probes:       probes,
			MemLimit:     96 << 30,
			WallPerSeed:  120 * time.Second,
			RecycleEvery: 25,
			Budget: func(tier string) (int, time.Duration) {
				if tier == "thorough" {
					return t, 50 * time.Minute
				}
				return q, 5 * time.Minute
			},
			Gen: withSchedKnobs(gen), Exec: withSample(gen, exec), Shrink: shrink, DeathSig: w3DeathSig(id),
		}
		Register(c)
		return c
	}
	// scoped race leg (racescope.go): the same scenarios under the race detector; only
	// reports with both accesses inside the operation the property is about count
	raced := func(c *Check, q, t int, scope ...string) {
		c.RaceScope = scope
		c.RaceSeeds = func(tier string) int {
			if tier == "thorough" {
				return t
			}
			return q
		}
	}
	defer func() {
		raced(registry["C09"], 300, 8000, "storage.(*Dataset).Search", "storage.(*Dataset).searchPartition")
		raced(registry["C11"], 300, 8000, "storage.(*Dataset).Batch", "storage.(*Dataset).PartitionBatch", "storage.(*Dataset).partitionsBatchRequest", "storage.(*Dataset).handlePartitionBatchRequest")
		raced(registry["C17"], 400, 10000, "storage.(*Dataset).SizeInfo")
	}()
	mk("C09", "exploration",
		"case = cluster of 1..4 servers, dataset with 1..8 partitions and 1..3 replicas, 1..14 items, 2..6 dataset searches from any node with k from 1 to beyond the total, yield probability 0..40% at the fan-out/fan-in channel operations, seeded select order; optionally a crashed node (which may also be removed from the membership, before or after it goes down, so that no address is known for a listed replica), a blocked link or 30% response loss during the searches; the simulator records every SearchPartitions leg; non-trivial = at least one search executed; distinct = hash of the event log",
		[]string{"dataset_searches", "searches_checked_against_union", "searches_with_several_legs", "legs_checked_against_direct_search", "searches_failed_loudly", "fault_partition", "fault_crash", "fault_drop_response", "node_removed_from_membership", "fault_stream_cut", "groups_of_overlapping_searches"},
		genC09, execC09, shrinkC09, 1500, 60000)
	mk("C10", "exploration",
		"case = fault-free cluster of 1..4 servers, dataset with 1..8 partitions, 4..14 writes over 3..12 ids issued through random entry nodes (hosting or not hosting the owner) and both API paths (single, batch), optionally a restart of all nodes in the middle; every outcome must equal a sequential map, every id must live in exactly one partition; non-trivial = more than 2 outcomes compared; distinct = hash of the event log",
		[]string{"outcomes_compared_with_sequential_map", "placements_checked", "node_restarts"},
		genC10, execC10, shrinkC05, 2000, 40000)
	mk("C11", "exploration",
		"case = cluster of 1..3 servers, dataset, 4..12 writes (single/batch, 40% overlapping, 12% with a wrong dimension) in one of four modes: fault-free (exact outcomes and batch error maps vs a sequential map), proposers paused between Propose and their wait until the entry is applied (hook H5), message faults + crash/isolation (an acknowledged success must be applied; porcupine register model), owner node removed from the address book while down; non-trivial = outcomes compared / acknowledged writes; distinct = hash of the event log",
		[]string{"outcomes_compared_with_sequential_map", "fault_free_exact_outcome_runs", "overlapping_caller_runs", "faulty_runs", "proposers_paused", "acknowledged_writes", "indeterminate_writes", "node_removed_from_membership", "truth_checks_on_surviving_replicas"},
		genC11, execC11, shrinkC05, 3000, 60000)
	mk("C17", "exploration",
		"case = cluster of 1..4 servers, dataset with 1..6 partitions and 1..3 replicas, 1..16 items (partitions end up with different sizes), SizeInfo asked on every node, yield probability 0..100% at the goroutine starts of the lookup loop; optionally a crashed node or a blocked link; non-trivial = at least one size request; distinct = hash of the event log",
		[]string{"size_requests", "size_requests_with_remote_lookups", "sizes_checked_against_sum", "partitions_with_different_sizes", "size_failed_loudly", "fault_crash", "fault_partition", "node_removed_from_membership", "size_requests_while_replica_sets_change"},
		genC17, execC17, shrinkC17, 3000, 60000)
}

var _ = math.Abs
var _ index.Metadata
