// Package anndbverif is the deterministic-simulation harness for anndb.
// See /verif/DESIGN.md. This file is the world-independent core: the check
// registry, the parent/worker protocol, shrinking, replay files, known
// findings and the evidence writer.
package anndbverif

import (
	"bufio"
	"bytes"
	"encoding/json"
	"fmt"
	"io"
	"os"
	"os/exec"
	"path/filepath"
	"runtime"
	"runtime/debug"
	"sort"
	"strconv"
	"strings"
	"sync"
	"syscall"
	"time"

	"github.com/sirupsen/logrus"

	"simrt"
)

// ---------------------------------------------------------------------------
// Types

type Violation struct {
	Property string `json:"property"`
	Sig      string `json:"sig"` // stable, discriminating signature
	Msg      string `json:"msg"`
}

type Outcome struct {
	Violations []Violation      `json:"violations,omitempty"`
	Stats      map[string]int64 `json:"stats,omitempty"` // fault kinds fired, reach probes, counters
	TraceHash  uint64           `json:"trace_hash"`      // canonical hash of the event sequence of the run
	Nontrivial bool             `json:"nontrivial"`
	SimSeconds float64          `json:"sim_seconds,omitempty"`
	Sample     interface{}      `json:"sample,omitempty"`
	Harness    string           `json:"harness,omitempty"`  // non-empty: harness trouble (exit 2), never a violation
	Poisoned   bool             `json:"poisoned,omitempty"` // the worker process must not be reused (leaked goroutines)
	Log        []string         `json:"log,omitempty"`      // event log (replay / selftest only)
}

func (o *Outcome) Stat(name string, d int64) {
	if o.Stats == nil {
		o.Stats = map[string]int64{}
	}
	o.Stats[name] += d
}

func (o *Outcome) Violate(prop, sig, format string, a ...interface{}) {
	o.Violations = append(o.Violations, Violation{Property: prop, Sig: sig, Msg: fmt.Sprintf(format, a...)})
}

// A Check decides one property in one world.
type Check struct {
	ID          string
	Level       string // exploration | fault_enumeration
	Rule        string
	Assumptions []string
	Real, Stub  []string // components that ran real code / a stub
	Probes      []string // reach probes that should be non-zero over a batch
	Budget      func(tier string) (seeds int, maxWall time.Duration)
	// Gen draws a case from the seed. The case is JSON so that it can be
	// shrunk, stored and replayed without the seed.
	Gen func(r *simrt.Rand, tier string) json.RawMessage
	// Exec runs one case. It must be a pure function of the case.
	Exec func(c json.RawMessage, wantLog bool) Outcome
	// Shrink proposes smaller cases, most aggressive first.
	Shrink func(c json.RawMessage) []json.RawMessage
	// InProcess=false: a worker process dying while executing a case is an
	// observation (product goroutine panicked / log.Fatal); DeathSig maps the
	// captured stderr to a signature.
	DeathSig     func(stderr string, cs json.RawMessage) (sig, msg string)
	MemLimit     uint64        // address-space limit of a worker process (0: 6 GiB)
	WallPerSeed  time.Duration // watchdog per seed including shrinking (0: 10 min)
	RecycleEvery int           // restart a worker process after this many seeds (0: never)
	// Focus, when set, proposes a much smaller case for a violation found inside
	// an enumeration (e.g. only the failing crash point); it is kept if it
	// reproduces the same signature, before ordinary shrinking starts.
	Focus func(c json.RawMessage, v Violation) json.RawMessage
	// RaceSeeds, when set, adds a second leg executed by a binary built with
	// -race (VERIF_RACE_BIN): a data race report kills the worker (halt_on_error)
	// and is classified by DeathSig.
	RaceSeeds func(tier string) int
	// RaceScope, when set, makes the race leg a scoped one (racescope.go): the worker
	// keeps running after a report, and only reports whose two accesses both lie in the
	// dynamic extent of one of these functions become violations.
	RaceScope []string
	Workers   int // 0: default
	// Legs: further batches of the same check executed after the main one, each with
	// its own generator (e.g. the cluster leg of a check whose main leg runs in World I).
	// Exec / Shrink / DeathSig of the check must recognise a leg's cases by content, so
	// that a replay file needs nothing but the case.
	Legs []Leg
}

type Leg struct {
	Name         string
	Seeds        func(tier string) int
	Gen          func(r *simrt.Rand, tier string) json.RawMessage
	RecycleEvery int
}

func (c *Check) genFor(leg string) func(r *simrt.Rand, tier string) json.RawMessage {
	for _, l := range c.Legs {
		if l.Name == leg && leg != "" {
			return l.Gen
		}
	}
	return c.Gen
}

var registry = map[string]*Check{}

// realStderr is fd 2 even after World III redirected os.Stderr (Badger's logger).
var realStderr = os.NewFile(2, "/dev/stderr")

func Register(c *Check) { registry[c.ID] = c }

// ---------------------------------------------------------------------------
// Replay files and known findings

type ReplayFile struct {
	Property    string          `json:"property"`
	Sig         string          `json:"sig"`
	Msg         string          `json:"msg"`
	Seed        uint64          `json:"seed"`
	RootSeed    uint64          `json:"root_seed"`
	Tier        string          `json:"tier"`
	Minimised   bool            `json:"minimised"`
	ShrinkExecs int             `json:"shrink_execs"`
	OrigSize    int             `json:"orig_case_bytes"`
	Case        json.RawMessage `json:"case"`
	Log         []string        `json:"log,omitempty"`
}

type KnownFinding struct {
	Property string `json:"property"`
	Sig      string `json:"sig"`    // exact signature, or prefix when it ends with '*'
	What     string `json:"what"`   // one line: what fails
	Status   string `json:"status"` // open | fixed
	Commit   string `json:"commit,omitempty"`
	Replay   string `json:"replay,omitempty"` // committed example
}

func verifDir() string {
	if d := os.Getenv("VERIF_DIR"); d != "" {
		return d
	}
	return "/verif"
}

func loadKnown() []KnownFinding {
	b, err := os.ReadFile(filepath.Join(verifDir(), "known_findings.json"))
	if err != nil {
		return nil
	}
	var k struct {
		Findings []KnownFinding `json:"findings"`
	}
	if err := json.Unmarshal(b, &k); err != nil {
		fmt.Fprintf(os.Stderr, "known_findings.json: %v\n", err)
		os.Exit(2)
	}
	return k.Findings
}

func matchKnown(known []KnownFinding, v Violation) *KnownFinding {
	for i := range known {
		k := &known[i]
		if k.Status != "open" || k.Property != v.Property {
			continue
		}
		if k.Sig == v.Sig || (strings.HasSuffix(k.Sig, "*") && strings.HasPrefix(v.Sig, strings.TrimSuffix(k.Sig, "*"))) {
			return k
		}
	}
	return nil
}

// ---------------------------------------------------------------------------
// Executing a case safely (in-process panics of product code become violations
// only where the check says so: Exec implementations recover themselves; this
// is the last line of defence and reports harness trouble).

func safeExec(c *Check, cs json.RawMessage, wantLog bool) (out Outcome) {
	defer func() {
		if r := recover(); r != nil {
			out.Harness = fmt.Sprintf("harness panic: %v\n%s", r, debug.Stack())
		}
	}()
	mark := newRaceMark(c)
	out = c.Exec(cs, wantLog)
	if mark != nil && out.Harness == "" {
		out.Violations = append(out.Violations, mark.collect()...)
	}
	return out
}

func sigSet(vs []Violation) map[string]bool {
	m := map[string]bool{}
	for _, v := range vs {
		m[v.Property+"|"+v.Sig] = true
	}
	return m
}

// shrink reduces a failing case while the same (property, signature) recurs.
func shrink(c *Check, cs json.RawMessage, target Violation, maxExecs int, deadline time.Time) (json.RawMessage, Violation, int) {
	if c.Shrink == nil {
		return cs, target, 0
	}
	execs := 0
	cur, curV := cs, target
	for progress := true; progress; {
		progress = false
		for _, cand := range c.Shrink(cur) {
			if execs >= maxExecs || time.Now().After(deadline) {
				return cur, curV, execs
			}
			if len(cand) >= len(cur) && bytes.Equal(cand, cur) {
				continue
			}
			execs++
			if raceScoped(c) && strings.HasPrefix(target.Sig, "data-race/") {
				if raceExecFresh(c, cand, target) {
					cur, progress = cand, true
					break
				}
				continue
			}
			o := safeExec(c, cand, false)
			if o.Harness != "" {
				continue
			}
			for _, v := range o.Violations {
				if v.Property == target.Property && v.Sig == target.Sig {
					cur, curV = cand, v
					progress = true
					break
				}
			}
			if progress {
				break
			}
		}
	}
	return cur, curV, execs
}

// ---------------------------------------------------------------------------
// Worker: reads "seed\n" lines, answers one "@@R <json>" line per seed.

type workerResult struct {
	Seed    uint64      `json:"seed"`
	Outcome Outcome     `json:"outcome"`
	Replays []string    `json:"replays,omitempty"` // one per violation, same order
	Viol    []Violation `json:"viol,omitempty"`    // after shrinking
	CaseLen int         `json:"case_len"`
	Shrinks int         `json:"shrinks"`
	leg     string
}

func seedFor(root uint64, i int) uint64 {
	r := simrt.NewRand(root ^ 0xa5a5a5a5deadbeef)
	return r.Split("seed" + strconv.Itoa(i)).Uint64()
}

func replayDir() string {
	d := filepath.Join(verifDir(), "replays")
	os.MkdirAll(d, 0755)
	return d
}

func runWorker(c *Check, tier string, root uint64) {
	in := bufio.NewScanner(os.Stdin)
	out := bufio.NewWriter(os.Stdout)
	defer out.Flush()
	for in.Scan() {
		line := strings.TrimSpace(in.Text())
		if line == "" {
			continue
		}
		seed, err := strconv.ParseUint(line, 10, 64)
		if err != nil {
			fmt.Fprintf(os.Stderr, "worker: bad seed %q\n", line)
			os.Exit(2)
		}
		provisional = func(p workerResult) {
			b, _ := json.Marshal(p)
			fmt.Fprintf(out, "@@P %s\n", b)
			out.Flush()
		}
		res := runSeed(c, tier, root, seed)
		b, _ := json.Marshal(res)
		fmt.Fprintf(out, "@@R %s\n", b)
		out.Flush()
	}
}

// watchdog aborts the worker when one seed runs away (wall clock or memory):
// that is harness/build trouble (exit 2 in the parent), never a violation.
func watchdog(seed uint64, limit time.Duration) func() {
	stop := make(chan struct{})
	go func() {
		t := time.NewTicker(500 * time.Millisecond)
		defer t.Stop()
		start := time.Now()
		for {
			select {
			case <-stop:
				return
			case <-t.C:
				var ms runtime.MemStats
				if time.Since(start) > limit {
					buf := make([]byte, 1<<20)
					n := runtime.Stack(buf, true)
					fmt.Fprintf(realStderr, "WATCHDOG: seed %d exceeded its budget (wall %.0fs, heap %d MiB)\n%s\n", seed, time.Since(start).Seconds(), ms.HeapAlloc>>20, tail(string(buf[:n]), 400000))
					os.Exit(3)
				}
			}
		}
	}()
	return func() { close(stop) }
}

func runSeed(c *Check, tier string, root, seed uint64) workerResult {
	// (the wall-clock / memory watchdog lives in the parent: a real-time timer in
	// this process would perturb the goroutine schedule of the simulation)
	cs := c.genFor(os.Getenv("VERIF_LEG"))(simrt.NewRand(seed), tier)
	o := safeExec(c, cs, false)
	res := workerResult{Seed: seed, Outcome: o, CaseLen: len(cs)}
	if o.Harness != "" || len(o.Violations) == 0 {
		return res
	}
	// Before anything is minimised, the violations go to the parent as they are (with
	// unminimised replay files): a worker that dies while it shrinks - candidates can be
	// far heavier than the case itself - must not take the finding with it.
	if provisional != nil {
		pres := workerResult{Seed: seed, Outcome: o, CaseLen: len(cs)}
		pseen := map[string]bool{}
		for _, v := range o.Violations {
			key := v.Property + "|" + v.Sig
			if pseen[key] {
				continue
			}
			pseen[key] = true
			rf := ReplayFile{Property: v.Property, Sig: v.Sig, Msg: v.Msg, Seed: seed, RootSeed: root, Tier: tier, OrigSize: len(cs), Case: cs}
			path := filepath.Join(replayDir(), fmt.Sprintf("%s-%d-%x-unminimised.json", v.Property, seed, simrt.HashString(v.Sig)&0xffff))
			b, _ := json.MarshalIndent(rf, "", " ")
			if os.WriteFile(path, b, 0644) == nil {
				pres.Replays = append(pres.Replays, path)
				pres.Viol = append(pres.Viol, v)
			}
		}
		provisional(pres)
	}
	// one replay file per distinct (property, signature)
	seen := map[string]bool{}
	for _, v := range o.Violations {
		key := v.Property + "|" + v.Sig
		if seen[key] {
			continue
		}
		seen[key] = true
		start := cs
		if c.Focus != nil {
			if fc := c.Focus(cs, v); fc != nil {
				fo := safeExec(c, fc, false)
				for _, fv := range fo.Violations {
					if fv.Property == v.Property && fv.Sig == v.Sig {
						start, v = fc, fv
						break
					}
				}
			}
		}
		budget := 400
		if o.Poisoned && os.Getenv("VERIF_LEG") == "race" {
			// a deadlocked run leaves its goroutines behind; under the race detector anything
			// executed after it in this process would be compared with what they did
			budget = 0
		}
		dl := 20 * time.Second
		if raceScoped(c) && strings.HasPrefix(v.Sig, "data-race/") && budget > 0 {
			budget, dl = 40, 2*time.Minute // every candidate costs a fresh process (racescope.go)
		}
		min, mv, execs := shrink(c, start, v, budget, time.Now().Add(dl))
		res.Shrinks += execs
		lo := o
		if budget > 0 {
			lo = safeExec(c, min, true)
		}
		rf := ReplayFile{Property: mv.Property, Sig: mv.Sig, Msg: mv.Msg, Seed: seed, RootSeed: root, Tier: tier,
			Minimised: execs > 0, ShrinkExecs: execs, OrigSize: len(cs), Case: min, Log: lo.Log}
		name := fmt.Sprintf("%s-%d-%x.json", mv.Property, seed, simrt.HashString(mv.Sig)&0xffff)
		path := filepath.Join(replayDir(), name)
		b, _ := json.MarshalIndent(rf, "", " ")
		if err := os.WriteFile(path, b, 0644); err != nil {
			res.Outcome.Harness = "cannot write replay file: " + err.Error()
		}
		res.Replays = append(res.Replays, path)
		res.Viol = append(res.Viol, mv)
		os.Remove(filepath.Join(replayDir(), fmt.Sprintf("%s-%d-%x-unminimised.json", v.Property, seed, simrt.HashString(v.Sig)&0xffff)))
	}
	return res
}

// provisional, in a worker, sends a result to the parent ahead of the final one.
var provisional func(workerResult)

// ---------------------------------------------------------------------------
// Replay: re-execute a replay file in this (fresh) process.

func runReplay(path string) int {
	b, err := os.ReadFile(path)
	if err != nil {
		fmt.Fprintln(os.Stderr, err)
		return 2
	}
	var rf ReplayFile
	if err := json.Unmarshal(b, &rf); err != nil {
		fmt.Fprintln(os.Stderr, err)
		return 2
	}
	id := os.Getenv("VERIF_CHECK")
	c := registry[id]
	if c == nil {
		fmt.Fprintf(os.Stderr, "unknown check %q\n", id)
		return 2
	}
	o := safeExec(c, rf.Case, true)
	if o.Harness != "" {
		fmt.Fprintln(os.Stderr, o.Harness)
		return 2
	}
	for _, l := range o.Log {
		fmt.Println(l)
	}
	for _, v := range o.Violations {
		if v.Property == rf.Property && v.Sig == rf.Sig {
			fmt.Printf("REPRODUCED property=%s sig=%s\n  %s\n", v.Property, v.Sig, v.Msg)
			if len(rf.Log) > 0 && len(o.Log) > 0 {
				same := len(rf.Log) == len(o.Log)
				for i := 0; same && i < len(o.Log); i++ {
					same = rf.Log[i] == o.Log[i]
				}
				fmt.Printf("event log identical to the recorded one: %v (%d lines)\n", same, len(o.Log))
			}
			return 1
		}
	}
	fmt.Printf("NOT-REPRODUCED property=%s sig=%s (violations now: %d)\n", rf.Property, rf.Sig, len(o.Violations))
	for _, v := range o.Violations {
		fmt.Printf("  other: %s %s\n", v.Sig, v.Msg)
	}
	return 0
}

// ---------------------------------------------------------------------------
// Parent

type evidence struct {
	PropertyID  string                 `json:"property_id"`
	Tier        string                 `json:"tier"`
	Seed        int64                  `json:"seed"`
	Level       string                 `json:"level"`
	Coverage    map[string]interface{} `json:"coverage"`
	Assumptions []string               `json:"assumptions"`
	WallS       float64                `json:"wall_s"`
	Violations  int                    `json:"violations"`
}

type workerProc struct {
	provisional *workerResult // what the worker reported before it started minimising
	watchdog    string        // set when the parent killed the worker
	cmd         *exec.Cmd
	stdin       io.WriteCloser
	stdout      *bufio.Reader
	stderr      *tailBuffer
}

type tailBuffer struct {
	mu    sync.Mutex
	buf   []byte
	crash []byte // the first 16 KiB from the first "panic: " / "fatal error: " on (a runtime traceback can push it out of the tail)
	inCr  bool
}

func (t *tailBuffer) Write(p []byte) (int, error) {
	t.mu.Lock()
	defer t.mu.Unlock()
	if !t.inCr && len(t.crash) == 0 {
		i := bytes.Index(p, []byte("fatal error: "))
		if j := bytes.Index(p, []byte("panic: ")); j >= 0 && (i < 0 || j < i) {
			i = j
		}
		if i >= 0 {
			t.inCr = true
			t.crash = append(t.crash, p[i:]...)
		}
	} else if t.inCr && len(t.crash) < 16<<10 {
		t.crash = append(t.crash, p...)
	}
	if len(t.crash) > 16<<10 {
		t.crash = t.crash[:16<<10]
	}
	t.buf = append(t.buf, p...)
	if len(t.buf) > 1<<18 {
		t.buf = append([]byte(nil), t.buf[len(t.buf)-(1<<17):]...)
	}
	return len(p), nil
}
func (t *tailBuffer) String() string {
	t.mu.Lock()
	defer t.mu.Unlock()
	if len(t.crash) > 0 && !bytes.Contains(t.buf, t.crash[:min(len(t.crash), 200)]) {
		return string(t.crash) + "\n[...]\n" + string(t.buf)
	}
	return string(t.buf)
}

func spawn(bin, role, id, tier string, root uint64, extraEnv ...string) (*workerProc, error) {
	if bin == "" {
		bin = os.Args[0]
	}
	cmd := exec.Command(bin, "-test.run", "^TestEntry$", "-test.timeout", "0", "-test.cpu", "1", "-test.count", "1")
	cmd.Env = append(os.Environ(), "VERIF_ROLE="+role, "VERIF_CHECK="+id, "VERIF_TIER="+tier, "VERIF_ROOT="+strconv.FormatUint(root, 10))
	cmd.Env = append(cmd.Env, extraEnv...)
	w := &workerProc{cmd: cmd, stderr: &tailBuffer{}}
	var err error
	if w.stdin, err = cmd.StdinPipe(); err != nil {
		return nil, err
	}
	so, err := cmd.StdoutPipe()
	if err != nil {
		return nil, err
	}
	w.stdout = bufio.NewReaderSize(so, 1<<20)
	cmd.Stderr = w.stderr
	if err := cmd.Start(); err != nil {
		return nil, err
	}
	return w, nil
}

// readResultWatched waits for the result of one seed; when the worker exceeds
// the wall-clock budget or 8 GiB of resident memory it is sent SIGQUIT (the Go
// runtime dumps all goroutine stacks to stderr) and the death is reported as
// harness trouble.
func (w *workerProc) readResultWatched(c *Check, seed uint64) (*workerResult, error) {
	return w.readResultWatchedMem(c, seed, 8<<30)
}

// heavyRetry serialises the second attempts of seeds whose worker outgrew the memory
// watchdog: one at a time, alone in a fresh process, with a three times larger bound.
var heavyRetry sync.Mutex

func (w *workerProc) readResultWatchedMem(c *Check, seed uint64, memLimit uint64) (*workerResult, error) {
	type rr struct {
		r   *workerResult
		err error
	}
	ch := make(chan rr, 1)
	go func() {
		r, err := w.readResult()
		ch <- rr{r, err}
	}()
	limit := c.WallPerSeed
	if limit == 0 {
		limit = 10 * time.Minute
	}
	deadline := time.After(limit)
	tick := time.NewTicker(250 * time.Millisecond)
	defer tick.Stop()
	for {
		select {
		case x := <-ch:
			return x.r, x.err
		case <-tick.C:
			if rss := rssOf(w.cmd.Process.Pid); rss > memLimit {
				w.watchdog = fmt.Sprintf("WATCHDOG: seed %d: worker resident memory %d MiB", seed, rss>>20)
				if rss > memLimit+12<<30 {
					w.cmd.Process.Kill() // growing by gigabytes per second: protect the machine first
				} else {
					w.cmd.Process.Signal(syscall.SIGQUIT)
				}
				x := <-ch
				return nil, fmt.Errorf("watchdog: %v", x.err)
			}
		case <-deadline:
			w.watchdog = fmt.Sprintf("WATCHDOG: seed %d exceeded its wall-clock budget of %s", seed, limit)
			w.cmd.Process.Signal(syscall.SIGQUIT)
			x := <-ch
			return nil, fmt.Errorf("watchdog: %v", x.err)
		}
	}
}

func rssOf(pid int) uint64 {
	b, err := os.ReadFile(fmt.Sprintf("/proc/%d/statm", pid))
	if err != nil {
		return 0
	}
	f := strings.Fields(string(b))
	if len(f) < 2 {
		return 0
	}
	pages, _ := strconv.ParseUint(f[1], 10, 64)
	return pages * 4096
}

// readResult reads lines until a result line; anything else is product noise.
func (w *workerProc) readResult() (*workerResult, error) {
	for {
		line, err := w.stdout.ReadString('\n')
		if strings.HasPrefix(line, "@@P ") {
			var r workerResult
			if json.Unmarshal([]byte(strings.TrimSpace(line[4:])), &r) == nil {
				w.provisional = &r
			}
			continue
		}
		if strings.HasPrefix(line, "@@R ") {
			var r workerResult
			if e := json.Unmarshal([]byte(strings.TrimSpace(line[4:])), &r); e != nil {
				return nil, e
			}
			return &r, nil
		}
		if err != nil {
			return nil, err
		}
	}
}

func runParent(c *Check, tier string, root uint64) int {
	start := time.Now()
	seeds, maxWall := c.Budget(tier)
	if s := os.Getenv("VERIF_SEEDS"); s != "" {
		if n, err := strconv.Atoi(s); err == nil {
			seeds = n
		}
	}
	nw := c.Workers
	if nw == 0 {
		nw = runtime.NumCPU()
	}
	if s := os.Getenv("VERIF_WORKERS"); s != "" {
		if n, err := strconv.Atoi(s); err == nil && n > 0 {
			nw = n
		}
	}
	if nw > seeds {
		nw = seeds
	}
	known := loadKnown()
	if old, _ := filepath.Glob(filepath.Join(replayDir(), c.ID+"-*.json")); true {
		for _, f := range old {
			os.Remove(f)
		}
	}
	type death struct {
		seed   uint64
		stderr string
		leg    string
	}
	var results []*workerResult
	var deaths []death
	harnessTrouble := ""
	deadline := start.Add(maxWall)
	next := 0
	runPool := func(bin, leg string, nseeds, nw int, seedOffset int, recycleEvery int) {
		if nw > nseeds {
			nw = nseeds
		}
		var mu sync.Mutex
		next = 0
		takeSeed := func() (uint64, bool) {
			mu.Lock()
			defer mu.Unlock()
			if next >= nseeds || time.Now().After(deadline) || harnessTrouble != "" {
				return 0, false
			}
			s := seedFor(root, seedOffset+next)
			next++
			return s, true
		}
		var wg sync.WaitGroup
		for i := 0; i < nw; i++ {
			wg.Add(1)
			go func() {
				defer wg.Done()
				var w *workerProc
				served := 0
				defer func() {
					if w != nil {
						w.stdin.Close()
						w.cmd.Wait()
					}
				}()
				for {
					seed, ok := takeSeed()
					if !ok {
						return
					}
					if w == nil {
						var err error
						w, err = spawn(bin, "worker", c.ID, tier, root, "VERIF_LEG="+leg)
						if err != nil {
							mu.Lock()
							harnessTrouble = "cannot start worker: " + err.Error()
							mu.Unlock()
							return
						}
					}
					fmt.Fprintf(w.stdin, "%d\n", seed)
					r, err := w.readResultWatched(c, seed)
					diedShrinking := false
					if err != nil && w.provisional != nil && w.provisional.Seed == seed {
						// the worker died (or was stopped by the watchdog) while it was minimising
						// what it had already reported: the report stands, unminimised
						w.cmd.Wait()
						r, err, diedShrinking = w.provisional, nil, true
						if r.Outcome.Stats == nil {
							r.Outcome.Stats = map[string]int64{}
						}
						r.Outcome.Stats["worker_died_while_minimising"] = 1
					}
					if err != nil && strings.Contains(w.watchdog, "resident memory") {
						// The worker outgrew the memory watchdog. That is usually the product
						// allocating from a number it read somewhere (which the case's own oracles
						// report when the run is allowed to end): the seed gets one more
						// execution, alone in a fresh process, with a larger bound.
						w.cmd.Wait()
						heavyRetry.Lock()
						if w2, e2 := spawn(bin, "worker", c.ID, tier, root, "VERIF_LEG="+leg); e2 == nil {
							fmt.Fprintf(w2.stdin, "%d\n", seed)
							r2, err2 := w2.readResultWatchedMem(c, seed, 24<<30)
							if err2 == nil {
								r, err = r2, nil
								served = recycleEvery + 1<<20 // this process is not used again
								w = w2
							} else {
								w2.cmd.Wait()
								w.watchdog = w2.watchdog + " (second attempt, alone, after: " + w.watchdog + ")"
								w.stderr = w2.stderr
							}
						}
						heavyRetry.Unlock()
					}
					if err != nil {
						// worker died while executing this seed
						w.cmd.Wait()
						mu.Lock()
						deaths = append(deaths, death{seed, w.watchdog + "\n" + w.stderr.String(), leg})
						mu.Unlock()
						w = nil
						continue
					}
					mu.Lock()
					if leg != "" {
						st := map[string]int64{}
						for k, v := range r.Outcome.Stats {
							st[leg+"_leg_"+k] = v
						}
						r.Outcome.Stats = st
						r.Outcome.Stats[leg+"_leg_runs"] = 1
					}
					r.leg = leg
					results = append(results, r)
					if r.Outcome.Harness != "" && harnessTrouble == "" {
						harnessTrouble = fmt.Sprintf("seed %d: %s", r.Seed, r.Outcome.Harness)
					}
					mu.Unlock()
					served++
					if diedShrinking {
						w = nil
						served = 0
						continue
					}
					if r.Outcome.Poisoned || (recycleEvery > 0 && served >= recycleEvery) || served > 1<<20 {
						served = 0
						w.stdin.Close()
						w.cmd.Process.Kill()
						w.cmd.Wait()
						w = nil
					}
				}
			}()
		}
		wg.Wait()
	}
	runPool("", "", seeds, nw, 0, c.RecycleEvery)
	mainNext := next
	if rb := os.Getenv("VERIF_RACE_BIN"); rb != "" && c.RaceSeeds != nil {
		rs := c.RaceSeeds(tier)
		if s := os.Getenv("VERIF_RACE_SEEDS"); s != "" {
			if n, err := strconv.Atoi(s); err == nil {
				rs = n
			}
		}
		if rs > 0 {
			if len(c.RaceScope) > 0 {
				rl := filepath.Join(os.Getenv("VERIF_SCRATCH_RUN"), "racelog")
				os.Setenv("VERIF_RACE_LOG", rl)
				os.Setenv("GORACE", "halt_on_error=0 log_path="+rl)
			} else {
				os.Setenv("GORACE", "halt_on_error=1")
			}
			runPool(rb, "race", rs, nw, 0, c.RecycleEvery)
		}
	}
	legNext := map[string][2]int{}
	for _, l := range c.Legs {
		ls := l.Seeds(tier)
		if s := os.Getenv("VERIF_LEG_SEEDS"); s != "" {
			if n, err := strconv.Atoi(s); err == nil {
				ls = n
			}
		}
		if ls > 0 {
			nwl := c.Workers
			if nwl == 0 {
				nwl = runtime.NumCPU()
			}
			if s := os.Getenv("VERIF_WORKERS"); s != "" {
				if n, err := strconv.Atoi(s); err == nil && n > 0 {
					nwl = n
				}
			}
			runPool("", l.Name, ls, nwl, 0, l.RecycleEvery)
			legNext[l.Name] = [2]int{next, ls}
		}
	}
	next = mainNext
	if harnessTrouble != "" {
		fmt.Fprintf(os.Stderr, "HARNESS-TROUBLE check=%s %s\n", c.ID, harnessTrouble)
		return 2
	}
	sort.Slice(results, func(i, j int) bool { return results[i].Seed < results[j].Seed })

	// classify
	type vrec struct {
		v      Violation
		replay string
		seed   uint64
		leg    string
	}
	var fresh []vrec
	knownHits := map[string]int{}
	knownWhat := map[string]*KnownFinding{}
	knownNotReached := map[string]bool{}
	stats := map[string]int64{}
	hashes := map[uint64]bool{}
	nontrivial := 0
	simSeconds := 0.0
	var samples []interface{}
	shrinkExecs := 0
	for _, r := range results {
		for k, v := range r.Outcome.Stats {
			stats[k] += v
		}
		simSeconds += r.Outcome.SimSeconds
		shrinkExecs += r.Shrinks
		if r.Outcome.Nontrivial {
			nontrivial++
			hashes[r.Outcome.TraceHash] = true
		}
		if r.Outcome.Sample != nil && len(samples) < 3 {
			samples = append(samples, map[string]interface{}{"seed": r.Seed, "case": r.Outcome.Sample})
		}
		for i, v := range r.Viol {
			if k := matchKnown(known, v); k != nil {
				knownHits[k.Property+"|"+k.Sig]++
				knownWhat[k.Property+"|"+k.Sig] = k
				if i < len(r.Replays) {
					os.Remove(r.Replays[i])
				}
				continue
			}
			rp := ""
			if i < len(r.Replays) {
				rp = r.Replays[i]
			}
			fresh = append(fresh, vrec{v, rp, r.Seed, r.leg})
		}
	}
	// Pinned cases: the committed example of every open finding of this property is
	// executed on every run, so that the finding is reported (KNOWN-FINDING) whether or
	// not this run's seeds happen to reach it - and so that one sees when it is gone.
	for i := range known {
		k := &known[i]
		if k.Status != "open" || k.Property != c.ID || k.Replay == "" {
			continue
		}
		path := filepath.Join(verifDir(), k.Replay)
		cmd := exec.Command(os.Args[0], "-test.run", "^TestEntry$", "-test.timeout", "0", "-test.cpu", "1", "-test.count", "1")
		cmd.Env = append(os.Environ(), "VERIF_ROLE=replay", "VERIF_CHECK="+c.ID, "VERIF_REPLAY="+path, "VERIF_DEBUG=")
		outb, _ := cmd.CombinedOutput()
		hit := false
		for _, l := range strings.Split(string(outb), "\n") {
			l = strings.TrimSpace(l)
			var sig string
			if strings.HasPrefix(l, "REPRODUCED property=") {
				if j := strings.Index(l, "sig="); j >= 0 {
					sig = strings.Fields(l[j+4:])[0]
				}
			} else if strings.HasPrefix(l, "other: ") {
				sig = strings.Fields(l[7:])[0]
			}
			if sig != "" && matchKnown(known, Violation{Property: c.ID, Sig: sig}) == k {
				hit = true
			}
		}
		if !hit && c.DeathSig != nil {
			// the committed example may be one in which the process dies: classify its output
			if rb, err := os.ReadFile(path); err == nil {
				var rf ReplayFile
				if json.Unmarshal(rb, &rf) == nil {
					if sig, _ := c.DeathSig(string(outb), rf.Case); sig != "" && matchKnown(known, Violation{Property: c.ID, Sig: sig}) == k {
						hit = true
					}
				}
			}
		}
		stats["pinned_known_finding_cases_run"]++
		if hit {
			knownHits[k.Property+"|"+k.Sig]++
			knownWhat[k.Property+"|"+k.Sig] = k
		} else {
			// A listed finding is reported on every run. Its committed example is a function of
			// the harness version as well (every yield point is part of the schedule): when the
			// example does not fail and no run of this batch reached the finding either, the
			// line says so instead of claiming a reproduction.
			if _, seen := knownWhat[k.Property+"|"+k.Sig]; !seen {
				knownWhat[k.Property+"|"+k.Sig] = k
				knownNotReached[k.Property+"|"+k.Sig] = true
			}
		}
	}
	// worker deaths: re-run the seed alone in a fresh process to classify
	for _, d := range deaths {
		if c.DeathSig == nil {
			fmt.Fprintf(os.Stderr, "HARNESS-TROUBLE check=%s worker died on seed %d:\n%s\n", c.ID, d.seed, tail(d.stderr, 4000))
			return 2
		}
		if strings.Contains(d.stderr, "WATCHDOG:") {
			fmt.Fprintf(os.Stderr, "HARNESS-TROUBLE check=%s %s\n", c.ID, strings.SplitN(d.stderr, "\n", 2)[0])
			fmt.Fprintf(os.Stderr, "%s\n", tail(d.stderr, 3000))
			return 2
		}
		dcs := c.genFor(d.leg)(simrt.NewRand(d.seed), tier)
		sig, msg := c.DeathSig(d.stderr, dcs)
		if d.leg != "" {
			stats[d.leg+"_leg_runs"]++
		}
		if sig == "" {
			head := d.stderr
			if len(head) > 2500 {
				head = head[:2500] + "\n[...]"
			}
			fmt.Fprintf(os.Stderr, "HARNESS-TROUBLE check=%s worker died on seed %d (unclassified):\n%s\n%s\n", c.ID, d.seed, head, tail(d.stderr, 3000))
			return 2
		}
		v := Violation{Property: c.ID, Sig: sig, Msg: msg}
		stats["worker_process_deaths"]++
		if k := matchKnown(known, v); k != nil {
			knownHits[k.Property+"|"+k.Sig]++
			knownWhat[k.Property+"|"+k.Sig] = k
			continue
		}
		// write a seed-only replay file
		cs := c.genFor(d.leg)(simrt.NewRand(d.seed), tier)
		rf := ReplayFile{Property: c.ID, Sig: sig, Msg: msg, Seed: d.seed, RootSeed: root, Tier: tier, Case: cs, OrigSize: len(cs)}
		path := filepath.Join(replayDir(), fmt.Sprintf("%s-%d-death.json", c.ID, d.seed))
		b, _ := json.MarshalIndent(rf, "", " ")
		os.WriteFile(path, b, 0644)
		fresh = append(fresh, vrec{v, path, d.seed, d.leg})
	}

	// confirm fresh violations by replaying in a fresh process
	confirmed, unconfirmed := 0, 0
	reported := map[string]bool{}
	var lines []string
	for _, f := range fresh {
		key := f.v.Property + "|" + f.v.Sig
		if reported[key] {
			if f.replay != "" {
				os.Remove(f.replay)
			}
			continue
		}
		ok := false
		if f.replay != "" {
			for try := 0; try < 3 && !ok; try++ {
				bin := os.Args[0]
				if f.leg == "race" {
					bin = os.Getenv("VERIF_RACE_BIN")
				}
				cmd := exec.Command(bin, "-test.run", "^TestEntry$", "-test.timeout", "0", "-test.cpu", "1", "-test.count", "1")
				cmd.Env = append(os.Environ(), "VERIF_ROLE=replay", "VERIF_CHECK="+c.ID, "VERIF_REPLAY="+f.replay, "VERIF_LEG="+f.leg)
				outb, _ := cmd.CombinedOutput()
				if bytes.Contains(outb, []byte("REPRODUCED property="+f.v.Property+" sig="+f.v.Sig)) && !bytes.Contains(outb, []byte("NOT-REPRODUCED property="+f.v.Property+" sig="+f.v.Sig)) {
					ok = true
				} else if c.DeathSig != nil {
					rb, _ := os.ReadFile(f.replay)
					var rf ReplayFile
					json.Unmarshal(rb, &rf)
					if sig, _ := c.DeathSig(string(outb), rf.Case); sig == f.v.Sig {
						ok = true
					}
				}
			}
		}
		if ok {
			confirmed++
		} else {
			unconfirmed++
		}
		reported[key] = true
		lines = append(lines, fmt.Sprintf("VIOLATION property=%s replay=%s", f.v.Property, f.replay))
		fmt.Printf("  signature: %s\n  seed: %d replay-confirmed-in-fresh-process: %v\n  %s\n", f.v.Sig, f.seed, ok, f.v.Msg)
	}
	var khKeys []string
	for k := range knownNotReached {
		if _, hit := knownHits[k]; !hit {
			khKeys = append(khKeys, k)
		}
	}
	for k := range knownHits {
		khKeys = append(khKeys, k)
	}
	sort.Strings(khKeys)
	knownOut := map[string]int{}
	for _, k := range khKeys {
		kf := knownWhat[k]
		if knownNotReached[k] && knownHits[k] == 0 {
			fmt.Printf("KNOWN-FINDING: property=%s %s [sig %s, not reached by this batch; the committed example %s does not fail under this version of the harness]\n", kf.Property, kf.What, kf.Sig, kf.Replay)
			continue
		}
		fmt.Printf("KNOWN-FINDING: property=%s %s [sig %s, %d runs]\n", kf.Property, kf.What, kf.Sig, knownHits[k])
		knownOut[kf.Sig] = knownHits[k]
	}
	for _, l := range lines {
		fmt.Println(l)
	}

	// evidence
	wall := time.Since(start).Seconds()
	zero := []string{}
	for _, p := range c.Probes {
		if stats[p] == 0 {
			zero = append(zero, p)
		}
	}
	if samples == nil {
		samples = []interface{}{}
	}
	cov := map[string]interface{}{
		"evaluations":            len(results) + len(deaths),
		"distinct_nontrivial":    len(hashes),
		"nontrivial_runs":        nontrivial,
		"rule":                   c.Rule,
		"samples":                samples,
		"seeds_planned":          seeds,
		"seeds_per_hour":         int(float64(len(results)) / wall * 3600),
		"simulated_seconds":      simSeconds,
		"counters_and_faults":    stats,
		"probes_at_zero":         zero,
		"shrink_executions":      shrinkExecs,
		"components_real":        c.Real,
		"components_stub":        c.Stub,
		"workers":                nw,
		"known_findings_hit":     knownOut,
		"violations_confirmed":   confirmed,
		"violations_unconfirmed": unconfirmed,
		"stopped_by_wall_clock":  next < seeds,
		"legs":                   legNext,
		"distinct_measure":       "distinct hashes of the canonical per-run event sequence among runs that are non-trivial by the rule",
	}
	ev := evidence{PropertyID: c.ID, Tier: tier, Seed: int64(root & 0x7fffffffffffffff), Level: c.Level, Coverage: cov,
		Assumptions: c.Assumptions, WallS: wall, Violations: len(lines)}
	eb, _ := json.MarshalIndent(ev, "", " ")
	evDir := filepath.Join(verifDir(), "evidence")
	if os.Getenv("VERIF_DIR_EVIDENCE_SKIP") != "" {
		// runs against a deliberately changed tree (tools/trymutant.sh) must not overwrite the evidence of /repo
		evDir = os.Getenv("VERIF_SCRATCH_RUN")
	}
	os.MkdirAll(evDir, 0755)
	if err := os.WriteFile(filepath.Join(evDir, c.ID+".json"), eb, 0644); err != nil {
		fmt.Fprintln(os.Stderr, err)
		return 2
	}
	fmt.Printf("check %s tier=%s root_seed=%d runs=%d distinct_nontrivial=%d known_findings=%d violations=%d wall=%.1fs\n",
		c.ID, tier, root, len(results)+len(deaths), len(hashes), len(knownHits), len(lines), wall)
	if len(results)+len(deaths) == 0 {
		fmt.Fprintln(os.Stderr, "HARNESS-TROUBLE no run completed")
		return 2
	}
	if len(lines) > 0 {
		return 1
	}
	return 0
}

// limitMemory caps the address space of a worker so that a product bug that
// allocates from a number read off a stream kills the worker (an observation)
// instead of the sandbox.
func limitMemory(c *Check) {
	if os.Getenv("VERIF_LEG") == "race" {
		return // the race detector's shadow memory needs the address space
	}
	if os.Getenv("VERIF_ROLE") == "" || os.Getenv("VERIF_ROLE") == "parent" || os.Getenv("VERIF_ROLE") == "selftest" {
		return
	}
	lim := c.MemLimit
	if lim == 0 {
		lim = 6 << 30
	}
	var rl syscall.Rlimit
	rl.Cur, rl.Max = lim, lim
	syscall.Setrlimit(syscall.RLIMIT_AS, &rl)
}

func tail(s string, n int) string {
	if len(s) > n {
		return s[len(s)-n:]
	}
	return s
}

// ---------------------------------------------------------------------------
// Entry (called from TestEntry)

func Entry() int {
	if os.Getenv("VERIF_PRODLOG") == "" {
		// the product's own log lines (info level, one per snapshot ...) would push the head of
		// a crash out of what the parent keeps of a worker's stderr
		logrus.SetOutput(io.Discard)
	}
	role := os.Getenv("VERIF_ROLE")
	id := os.Getenv("VERIF_CHECK")
	tier := os.Getenv("VERIF_TIER")
	if tier == "" {
		tier = "quick"
	}
	var root uint64 = 20260924
	if s := os.Getenv("VERIF_ROOT"); s != "" {
		root, _ = strconv.ParseUint(s, 10, 64)
	} else if s := os.Getenv("VERIF_SEED"); s != "" {
		if v, err := strconv.ParseInt(s, 10, 64); err == nil {
			root = uint64(v)
		} else if v, err := strconv.ParseUint(s, 10, 64); err == nil {
			root = v
		}
	}
	if role == "replay" {
		if c := registry[id]; c != nil {
			limitMemory(c)
		}
		return runReplay(os.Getenv("VERIF_REPLAY"))
	}
	if role == "selftest" {
		return runSelftest(root)
	}
	if role == "seedof" {
		n, _ := strconv.Atoi(os.Getenv("VERIF_ONE"))
		fmt.Println(seedFor(root, n))
		return 0
	}
	c := registry[id]
	if c == nil {
		fmt.Fprintf(os.Stderr, "unknown check %q; have:", id)
		for k := range registry {
			fmt.Fprintf(os.Stderr, " %s", k)
		}
		fmt.Fprintln(os.Stderr)
		return 2
	}
	limitMemory(c)
	switch role {
	case "worker":
		runWorker(c, tier, root)
		return 0
	case "one": // run a single seed in-process, print the outcome (development aid)
		seed, _ := strconv.ParseUint(os.Getenv("VERIF_ONE"), 10, 64)
		if s := os.Getenv("VERIF_WALL"); s != "" {
			if n, err := strconv.Atoi(s); err == nil {
				defer watchdog(seed, time.Duration(n)*time.Second)()
			}
		}
		cs := c.genFor(os.Getenv("VERIF_LEG"))(simrt.NewRand(seed), tier)
		o := safeExec(c, cs, true)
		b, _ := json.MarshalIndent(o, "", " ")
		fmt.Printf("case: %s\noutcome: %s\n", cs, b)
		return 0
	default:
		return runParent(c, tier, root)
	}
}

// runSelftest: determinism self-test. For every registered check, a number of
// seeds are executed several times in separate processes and at different
// parallelism; the event logs must be identical.
func runSelftest(root uint64) int {
	ids := make([]string, 0, len(registry))
	for id := range registry {
		ids = append(ids, id)
	}
	sort.Strings(ids)
	if s := os.Getenv("VERIF_CHECK"); s != "" {
		ids = strings.Split(s, ",")
	}
	nseeds := 30
	if s := os.Getenv("VERIF_SEEDS"); s != "" {
		nseeds, _ = strconv.Atoi(s)
	}
	bad := 0
	for _, id := range ids {
		c := registry[id]
		if c == nil {
			fmt.Fprintf(os.Stderr, "unknown check %s\n", id)
			return 2
		}
		legs := []string{""}
		for _, l := range c.Legs {
			legs = append(legs, l.Name)
		}
		for _, leg := range legs {
			digests := make([]map[int]string, nseeds)
			for i := range digests {
				digests[i] = map[int]string{}
			}
			var mu sync.Mutex
			for rep, par := range []int{1, 4, 16} {
				sem := make(chan struct{}, par)
				var wg sync.WaitGroup
				for i := 0; i < nseeds; i++ {
					wg.Add(1)
					sem <- struct{}{}
					go func(i int) {
						defer wg.Done()
						defer func() { <-sem }()
						cmd := exec.Command(os.Args[0], "-test.run", "^TestEntry$", "-test.timeout", "0", "-test.cpu", "1", "-test.count", "1")
						cmd.Env = append(os.Environ(), "VERIF_ROLE=digest", "VERIF_CHECK="+id, "VERIF_ONE="+strconv.FormatUint(seedFor(root, i), 10), "VERIF_TIER=quick", "VERIF_LEG="+leg)
						outb, _ := cmd.CombinedOutput()
						d := "no-digest"
						for _, l := range strings.Split(string(outb), "\n") {
							if strings.HasPrefix(l, "@@D ") {
								d = strings.TrimSpace(l[4:])
							}
						}
						mu.Lock()
						digests[i][rep] = d
						mu.Unlock()
					}(i)
				}
				wg.Wait()
			}
			div := 0
			for i := range digests {
				if digests[i][0] != digests[i][1] || digests[i][0] != digests[i][2] || digests[i][0] == "no-digest" {
					div++
					fmt.Printf("selftest %s seed#%d diverged: %v\n", id, i, digests[i])
				}
			}
			name := id
			if leg != "" {
				name = id + " (leg " + leg + ")"
			}
			fmt.Printf("selftest %s: %d seeds x 3 executions (parallelism 1/4/16): %d diverged\n", name, nseeds, div)
			bad += div
		}
	}
	if bad > 0 {
		return 2
	}
	return 0
}

func digestOne(c *Check, seed uint64, tier string) {
	cs := c.genFor(os.Getenv("VERIF_LEG"))(simrt.NewRand(seed), tier)
	o := safeExec(c, cs, true)
	h := simrt.HashBytes(0, cs)
	for _, l := range o.Log {
		h = simrt.HashBytes(h, []byte(l))
		h = simrt.HashBytes(h, []byte{'\n'})
	}
	for _, v := range o.Violations {
		h = simrt.HashBytes(h, []byte(v.Sig))
	}
	fmt.Printf("@@D %016x-%016x-%d\n", h, o.TraceHash, len(o.Log))
	if d := os.Getenv("VERIF_DUMPLOG"); d != "" {
		os.MkdirAll(d, 0755)
		os.WriteFile(filepath.Join(d, fmt.Sprintf("%d-%016x-%d.log", seed, h, os.Getpid())), []byte(strings.Join(o.Log, "\n")), 0644)
		if len(ytrace) > 0 {
			os.WriteFile(filepath.Join(d, fmt.Sprintf("%d-%016x-%d.ytrace", seed, h, os.Getpid())), []byte(strings.Join(ytrace, "\n")), 0644)
		}
	}
}
