package anndbverif

// World IV: the Badger-backed raft log (storage/wal) against etcd's
// raft.MemoryStorage, call by call. Reopen (fresh badgerWAL instance, cold
// cache) is enumerated at every position of each generated sequence; closing
// and reopening the database and deleting groups are generated operations.
// Decides C06.

import (
	"encoding/json"
	"fmt"
	"io"
	"os"
	"path/filepath"
	"reflect"
	"runtime/debug"
	"strings"
	"sync/atomic"
	"time"

	etcdraft "github.com/coreos/etcd/raft"
	"github.com/coreos/etcd/raft/raftpb"
	badger "github.com/dgraph-io/badger/v2"
	"github.com/marekgalovic/anndb/storage/wal"
	uuid "github.com/satori/go.uuid"
	"github.com/sirupsen/logrus"

	"simrt"
)

type WalOp struct {
	K        string `json:"k"` // save snap reopen reopendb delete
	G        int    `json:"g"`
	Back     int    `json:"back,omitempty"` // save: entries start at last+1-back
	N        int    `json:"n,omitempty"`    // save: number of entries
	TermBump int    `json:"tb,omitempty"`
	HS       bool   `json:"hs,omitempty"`
	Snap     int    `json:"snap,omitempty"` // save: 0 none, 1 beyond last index, 2 inside the log with another term, 3 inside the log with the same term, 4 exactly at last index with another term
	SnapOff  int    `json:"so,omitempty"`
	At       int    `json:"at,omitempty"` // snap: index = first + at (clamped)
	Data     int    `json:"data,omitempty"`
}

type WalCase struct {
	Groups int     `json:"groups"`
	Ops    []WalOp `json:"ops"`
	Enum   bool    `json:"enum"` // enumerate a reopen at every position (on group 0's sequence)
}

func genC06(r *simrt.Rand, tier string) json.RawMessage {
	c := WalCase{Groups: r.Range(1, 3), Enum: r.Bool(0.5)}
	n := r.Range(2, 18)
	if tier == "thorough" {
		n = r.Range(2, 40)
	}
	for i := 0; i < n; i++ {
		op := WalOp{G: r.Intn(c.Groups)}
		x := r.Intn(100)
		switch {
		case x < 55:
			op.K = "save"
			op.N = r.Range(0, 5)
			if r.Bool(0.3) {
				op.Back = r.Range(1, 4)
			}
			if r.Bool(0.3) {
				op.TermBump = r.Range(1, 2)
			}
			op.HS = r.Bool(0.5)
			if r.Bool(0.15) {
				op.Snap = r.Range(1, 4)
				op.SnapOff = r.Range(0, 4)
				op.Back = 0
				op.Data = r.Range(0, 20)
			}
		case x < 75:
			op.K = "snap"
			op.At = r.Range(-1, 6)
			op.Data = r.Range(0, 30)
		case x < 88:
			op.K = "reopen"
		case x < 92:
			op.K = "reopendb"
		default:
			op.K = "delete"
		}
		c.Ops = append(c.Ops, op)
	}
	b, _ := json.Marshal(c)
	return b
}

var walDirCounter int64

func scratchRunDir() string {
	base := os.Getenv("VERIF_SCRATCH_RUN")
	if base == "" {
		base = filepath.Join(os.TempDir(), "anndb-verif-run")
	}
	d := filepath.Join(base, fmt.Sprintf("p%d-%d", os.Getpid(), atomic.AddInt64(&walDirCounter, 1)))
	os.MkdirAll(d, 0755)
	return d
}

func quietLogger() *logrus.Logger {
	l := logrus.New()
	l.SetOutput(io.Discard)
	l.SetLevel(logrus.PanicLevel)
	return l
}

func openBadger(dir string) (*badger.DB, error) {
	return badger.Open(badger.LSMOnlyOptions(dir).WithLogger(quietLogger()))
}

type walUnderTest interface {
	wal.WAL
}

// one group: implementation + reference
type walGroup struct {
	id  uuid.UUID
	w   wal.WAL
	ms  *etcdraft.MemoryStorage
	hs  raftpb.HardState
	lbl string // label of the last mutating call (for signatures)
}

func errStr(err error) string {
	if err == nil {
		return "nil"
	}
	return err.Error()
}

// compareViews compares every read method of w with the reference.
func compareViews(w wal.WAL, ms *etcdraft.MemoryStorage, hs raftpb.HardState) (method, detail string) {
	mf, _ := ms.FirstIndex()
	ml, _ := ms.LastIndex()
	wf, err := w.FirstIndex()
	if err != nil || wf != mf {
		return "FirstIndex", fmt.Sprintf("FirstIndex = %d, %s; reference %d", wf, errStr(err), mf)
	}
	wl, err := w.LastIndex()
	if err != nil || wl != ml {
		return "LastIndex", fmt.Sprintf("LastIndex = %d, %s; reference %d (first %d)", wl, errStr(err), ml, mf)
	}
	lo := uint64(0)
	if mf > 2 {
		lo = mf - 2
	}
	for i := lo; i <= ml+2; i++ {
		mt, merr := ms.Term(i)
		wt, werr := w.Term(i)
		if mt != wt || errStr(merr) != errStr(werr) {
			return "Term", fmt.Sprintf("Term(%d) = %d, %s; reference %d, %s (first %d last %d)", i, wt, errStr(werr), mt, errStr(merr), mf, ml)
		}
	}
	msnap, _ := ms.Snapshot()
	wsnap, err := w.Snapshot()
	if err != nil || !snapEqual(msnap, wsnap) {
		return "Snapshot", fmt.Sprintf("Snapshot = {index %d term %d, %d data bytes, conf %v}, %s; reference {index %d term %d, %d data bytes, conf %v}",
			wsnap.Metadata.Index, wsnap.Metadata.Term, len(wsnap.Data), wsnap.Metadata.ConfState.Nodes, errStr(err), msnap.Metadata.Index, msnap.Metadata.Term, len(msnap.Data), msnap.Metadata.ConfState.Nodes)
	}
	whs, wcs, err := w.InitialState()
	if err != nil || !reflect.DeepEqual(whs, hs) || !confEqual(wcs, msnap.Metadata.ConfState) {
		return "InitialState", fmt.Sprintf("InitialState = %+v %v, %s; reference %+v %v", whs, wcs.Nodes, errStr(err), hs, msnap.Metadata.ConfState.Nodes)
	}
	// entry ranges
	type rg struct{ lo, hi, max uint64 }
	var ranges []rg
	if lo2 := mf - 1; true {
		ranges = append(ranges, rg{lo2, lo2 + 1, 1 << 20}) // compacted
	}
	for a := mf; a <= ml; a++ {
		ranges = append(ranges, rg{a, a + 1, 1 << 20})
	}
	if ml >= mf {
		ranges = append(ranges, rg{mf, ml + 1, 1 << 20}, rg{mf, ml + 1, 0}, rg{mf, ml + 1, 40})
		if ml > mf {
			ranges = append(ranges, rg{mf + 1, ml + 1, 25}, rg{mf, ml, 1 << 20})
		}
	}
	for _, r := range ranges {
		me, merr := ms.Entries(r.lo, r.hi, r.max)
		we, werr := w.Entries(r.lo, r.hi, r.max)
		if errStr(merr) != errStr(werr) || !entsEqual(me, we) {
			return "Entries", fmt.Sprintf("Entries(%d,%d,%d) = %s, %s; reference %s, %s (first %d last %d)", r.lo, r.hi, r.max, entsStr(we), errStr(werr), entsStr(me), errStr(merr), mf, ml)
		}
	}
	return "", ""
}

func confEqual(a, b raftpb.ConfState) bool {
	if len(a.Nodes) != len(b.Nodes) {
		return false
	}
	for i := range a.Nodes {
		if a.Nodes[i] != b.Nodes[i] {
			return false
		}
	}
	return true
}

func snapEqual(a, b raftpb.Snapshot) bool {
	return a.Metadata.Index == b.Metadata.Index && a.Metadata.Term == b.Metadata.Term && string(a.Data) == string(b.Data) && confEqual(a.Metadata.ConfState, b.Metadata.ConfState)
}

func entsEqual(a, b []raftpb.Entry) bool {
	if len(a) != len(b) {
		return false
	}
	for i := range a {
		if a[i].Index != b[i].Index || a[i].Term != b[i].Term || a[i].Type != b[i].Type || string(a[i].Data) != string(b[i].Data) {
			return false
		}
	}
	return true
}

func entsStr(e []raftpb.Entry) string {
	var sb strings.Builder
	sb.WriteString("[")
	for i, x := range e {
		if i > 0 {
			sb.WriteString(" ")
		}
		fmt.Fprintf(&sb, "%d@%d", x.Index, x.Term)
	}
	sb.WriteString("]")
	return sb.String()
}

type walWorld struct {
	dir    string
	db     *badger.DB
	out    *Outcome
	h      uint64
	log    []string
	wantL  bool
	serial int
}

func (ww *walWorld) logf(f string, a ...interface{}) {
	s := fmt.Sprintf(f, a...)
	ww.h = simrt.HashBytes(ww.h, []byte(s))
	if ww.wantL {
		ww.log = append(ww.log, s)
	}
}

func (ww *walWorld) newGroup(id uuid.UUID) *walGroup {
	return &walGroup{id: id, w: wal.NewBadgerWAL(ww.db, id), ms: etcdraft.NewMemoryStorage(), lbl: "new"}
}

// applyOp performs one mutating operation on a group (implementation and
// reference). Returns a label describing what was done and a violation
// description if the call itself misbehaved.
func (ww *walWorld) applyOp(g *walGroup, op WalOp) (label string, sig string, msg string) {
	mf, _ := g.ms.FirstIndex()
	ml, _ := g.ms.LastIndex()
	msnap, _ := g.ms.Snapshot()
	lastTerm, _ := g.ms.Term(ml)
	switch op.K {
	case "save":
		var snap raftpb.Snapshot
		label = "save"
		base := ml
		baseTerm := lastTerm
		if op.Snap != 0 {
			var idx, term uint64
			switch op.Snap {
			case 1:
				idx = ml + 1 + uint64(op.SnapOff)
				term = lastTerm + uint64(op.SnapOff%2)
				label += "+snapshot-beyond-log"
			case 2, 3:
				if ml <= msnap.Metadata.Index {
					idx = ml + 1
					term = lastTerm
					label += "+snapshot-beyond-log"
				} else {
					idx = msnap.Metadata.Index + 1 + uint64(op.SnapOff)%(ml-msnap.Metadata.Index)
					t, _ := g.ms.Term(idx)
					if op.Snap == 2 {
						term = lastTerm + 1
						label += "+snapshot-inside-log-other-term"
					} else {
						term = t
						label += "+snapshot-inside-log-same-term"
					}
				}
			default:
				if ml <= msnap.Metadata.Index {
					idx = ml + 1
					term = lastTerm
					label += "+snapshot-beyond-log"
				} else {
					idx = ml
					term = lastTerm + 1
					label += "+snapshot-at-last-index-other-term"
				}
			}
			data := make([]byte, op.Data)
			for i := range data {
				data[i] = byte(ww.serial + i)
			}
			snap = raftpb.Snapshot{Data: data, Metadata: raftpb.SnapshotMetadata{Index: idx, Term: term, ConfState: raftpb.ConfState{Nodes: []uint64{1, uint64(2 + ww.serial%3)}}}}
			base, baseTerm = idx, term
		}
		var ents []raftpb.Entry
		if op.N > 0 {
			start := base + 1
			if op.Snap == 0 && op.Back > 0 {
				b := uint64(op.Back)
				if b > ml+1 {
					b = ml + 1
				}
				start = ml + 1 - b
				if start == 0 {
					start = 1
				}
				if start <= ml {
					label += "+overwrite"
					if start < mf {
						label += "-straddling-first-index"
					}
				}
			}
			term := baseTerm
			if op.Snap == 0 && start <= ml {
				// terms must not decrease along the log: take the preceding entry's term as floor
				if t, err := g.ms.Term(start - 1); err == nil {
					term = t
				}
				if term < lastTerm && op.TermBump == 0 {
					// a conflicting suffix always comes from a newer term
				}
				term = lastTerm + uint64(op.TermBump)
				if t, err := g.ms.Term(start - 1); err == nil && t > term {
					term = t
				}
			} else {
				term += uint64(op.TermBump)
			}
			if term == 0 {
				term = 1
			}
			for i := 0; i < op.N; i++ {
				ww.serial++
				ents = append(ents, raftpb.Entry{Index: start + uint64(i), Term: term, Data: []byte(fmt.Sprintf("e%d", ww.serial))})
			}
			label += "+entries"
		}
		var hs raftpb.HardState
		if op.HS {
			ww.serial++
			newLast := ml
			if len(ents) > 0 {
				newLast = ents[len(ents)-1].Index
			} else if op.Snap != 0 {
				newLast = snap.Metadata.Index
			}
			commit := g.hs.Commit
			if newLast >= mf-1 {
				if c := mf - 1 + uint64(ww.serial)%(newLast-(mf-1)+1); c > commit && c <= newLast {
					commit = c
				}
			}
			t := lastTerm + uint64(op.TermBump)
			if len(ents) > 0 {
				t = ents[len(ents)-1].Term
			}
			if t < g.hs.Term {
				t = g.hs.Term
			}
			hs = raftpb.HardState{Term: t, Vote: uint64(1 + ww.serial%3), Commit: commit}
			label += "+hardstate"
		}
		err := g.w.Save(hs, ents, snap)
		ww.logf("g%d Save(hs=%+v, ents=%s, snap=%d@%d) -> %s", op.G, hs, entsStr(ents), snap.Metadata.Index, snap.Metadata.Term, errStr(err))
		if err != nil {
			return label, "Save-error", fmt.Sprintf("Save returned %v for a legal call", err)
		}
		if !etcdraft.IsEmptySnap(snap) {
			if err := g.ms.ApplySnapshot(snap); err != nil {
				panic("harness: reference rejected snapshot: " + err.Error())
			}
			ww.out.Stat("save_with_snapshot", 1)
			if len(ents) > 0 {
				ww.out.Stat("save_with_snapshot_and_entries", 1)
			}
		}
		if err := g.ms.Append(ents); err != nil {
			panic("harness: reference rejected append: " + err.Error())
		}
		if strings.Contains(label, "overwrite") {
			ww.out.Stat("conflicting_overwrite", 1)
		}
		if !etcdraft.IsEmptyHardState(hs) {
			g.ms.SetHardState(hs)
			g.hs = hs
		}
	case "snap":
		idx := mf + uint64(op.At)
		if op.At < 0 {
			idx = mf - 1
		}
		if idx > ml {
			idx = ml
		}
		cs := &raftpb.ConfState{Nodes: []uint64{1, 2, uint64(3 + op.Data%2)}}
		data := make([]byte, op.Data)
		for i := range data {
			data[i] = byte(op.Data + i)
		}
		label = "create-snapshot"
		_, merr := g.ms.CreateSnapshot(idx, cs, data)
		wsnap, werr := g.w.CreateSnapshot(idx, cs, data)
		ww.logf("g%d CreateSnapshot(%d) -> %s (reference %s)", op.G, idx, errStr(werr), errStr(merr))
		if errStr(merr) != errStr(werr) {
			return label, "CreateSnapshot-result", fmt.Sprintf("CreateSnapshot(%d) returned %s, reference %s (first %d last %d snapshot %d)", idx, errStr(werr), errStr(merr), mf, ml, msnap.Metadata.Index)
		}
		if merr == nil {
			g.ms.Compact(idx)
			ww.out.Stat("local_snapshot_and_compaction", 1)
			if wsnap.Metadata.Index != idx {
				return label, "CreateSnapshot-result", fmt.Sprintf("CreateSnapshot(%d) returned snapshot at %d", idx, wsnap.Metadata.Index)
			}
		} else {
			label = "create-snapshot-rejected"
		}
	case "reopen":
		g.w = wal.NewBadgerWAL(ww.db, g.id)
		label = g.lbl + ">reopen"
		ww.logf("g%d reopen", op.G)
		ww.out.Stat("reopen_cold_cache", 1)
	case "delete":
		err := g.w.DeleteGroup()
		ww.logf("g%d DeleteGroup -> %s", op.G, errStr(err))
		if err != nil {
			return "delete-group", "DeleteGroup-error", fmt.Sprintf("DeleteGroup returned %v", err)
		}
		g.w = wal.NewBadgerWAL(ww.db, g.id)
		g.ms = etcdraft.NewMemoryStorage()
		g.hs = raftpb.HardState{}
		label = "delete-group-then-new-store"
		ww.out.Stat("delete_group", 1)
	}
	if op.K != "reopen" {
		g.lbl = label
	}
	return label, "", ""
}

func execC06(raw json.RawMessage, wantLog bool) (out Outcome) {
	var c WalCase
	if err := json.Unmarshal(raw, &c); err != nil {
		out.Harness = err.Error()
		return
	}
	simrt.SetMode(simrt.ModePlain)
	ww := &walWorld{dir: scratchRunDir(), out: &out, wantL: wantLog}
	defer os.RemoveAll(ww.dir)
	var err error
	ww.db, err = openBadger(ww.dir)
	if err != nil {
		out.Harness = "badger open: " + err.Error()
		return
	}
	defer func() {
		if r := recover(); r != nil {
			if s, ok := r.(string); ok && strings.HasPrefix(s, "harness:") {
				out.Harness = s
			} else if topFrame(debug.Stack()) == "unknown" {
				out.Harness = fmt.Sprintf("harness panic: %v\n%s", r, debug.Stack())
			} else {
				out.Violate("C06", "panic/"+topFrame(debug.Stack()), "panic: %v | %s", r, trimStack(debug.Stack()))
			}
		}
		out.TraceHash = ww.h
		out.Log = ww.log
		if ww.db != nil {
			ww.db.Close()
		}
	}()
	groups := make([]*walGroup, c.Groups)
	for i := range groups {
		groups[i] = ww.newGroup(idOf(5000 + i))
	}
	// variants: for position p, a shadow group replays group 0's operations with a reopen after the p-th
	type variant struct {
		g   *walGroup
		pos int
		n   int
	}
	var variants []*variant
	if c.Enum {
		n0 := 0
		for _, op := range c.Ops {
			if op.G == 0 && op.K != "reopendb" {
				n0++
			}
		}
		for p := 1; p <= n0; p++ {
			variants = append(variants, &variant{g: ww.newGroup(idOf(6000 + p)), pos: p})
		}
		out.Stat("reopen_positions_enumerated", int64(len(variants)))
	}
	violated := false
	check := func(g *walGroup, who, label string) {
		if violated {
			return
		}
		if m, d := compareViews(g.w, g.ms, g.hs); m != "" {
			violated = true
			out.Violate("C06", m+"/warm-instance/after-"+label, "%s: %s", who, d)
			return
		}
		cold := wal.NewBadgerWAL(ww.db, g.id)
		if m, d := compareViews(cold, g.ms, g.hs); m != "" {
			violated = true
			out.Violate("C06", m+"/fresh-instance/after-"+label, "%s, read through a fresh instance: %s", who, d)
		}
	}
	for i, op := range c.Ops {
		if violated {
			break
		}
		if op.K == "reopendb" {
			ww.logf("close and reopen database")
			if err := ww.db.Close(); err != nil {
				out.Harness = "badger close: " + err.Error()
				return
			}
			ww.db, err = openBadger(ww.dir)
			if err != nil {
				out.Harness = "badger reopen: " + err.Error()
				return
			}
			for _, g := range groups {
				g.w = wal.NewBadgerWAL(ww.db, g.id)
			}
			for _, v := range variants {
				v.g.w = wal.NewBadgerWAL(ww.db, v.g.id)
			}
			out.Stat("database_close_reopen", 1)
			for gi, g := range groups {
				check(g, fmt.Sprintf("op %d (db reopen), group %d", i, gi), g.lbl+">db-reopen")
			}
			continue
		}
		g := groups[op.G]
		serialBefore := ww.serial
		label, sig, msg := ww.applyOp(g, op)
		if sig != "" {
			violated = true
			out.Violate("C06", sig+"/after-"+g.lbl, "op %d: %s", i, msg)
			break
		}
		// all groups are compared after every call: isolation
		for gi, og := range groups {
			lbl := label
			if gi != op.G {
				lbl = "write-to-another-group(" + label + ")"
			}
			check(og, fmt.Sprintf("op %d %s on group %d, group %d", i, op.K, op.G, gi), lbl)
		}
		if op.G == 0 {
			for _, v := range variants {
				if violated {
					break
				}
				// replay the same call on the shadow group with the same serial numbers
				save := ww.serial
				ww.serial = serialBefore
				wl := ww.wantL
				hh := ww.h
				ww.wantL = false
				vl, vsig, vmsg := ww.applyOp(v.g, op)
				ww.serial = save
				ww.wantL = wl
				ww.h = hh
				v.n++
				if vsig != "" {
					violated = true
					out.Violate("C06", vsig+"/after-"+v.g.lbl, "reopen-position variant %d, op %d: %s", v.pos, i, vmsg)
					break
				}
				if v.n == v.pos {
					v.g.w = wal.NewBadgerWAL(ww.db, v.g.id)
					v.g.lbl = vl + ">reopen"
					vl = v.g.lbl
				}
				check(v.g, fmt.Sprintf("variant with a reopen after its op %d, at op %d", v.pos, i), vl)
			}
		}
	}
	out.Nontrivial = len(c.Ops) >= 2
	return
}

func shrinkC06(raw json.RawMessage) []json.RawMessage {
	var c WalCase
	if json.Unmarshal(raw, &c) != nil {
		return nil
	}
	var out []json.RawMessage
	emit := func(n WalCase) {
		b, _ := json.Marshal(n)
		out = append(out, b)
	}
	if c.Enum {
		nc := c
		nc.Enum = false
		emit(nc)
	}
	n := len(c.Ops)
	for chunk := n / 2; chunk >= 1; chunk /= 2 {
		for i := 0; i+chunk <= n; i += chunk {
			nc := c
			nc.Ops = append(append([]WalOp(nil), c.Ops[:i]...), c.Ops[i+chunk:]...)
			emit(nc)
		}
	}
	if c.Groups > 1 {
		nc := c
		nc.Groups = 1
		nc.Ops = nil
		for _, op := range c.Ops {
			op.G = 0
			nc.Ops = append(nc.Ops, op)
		}
		emit(nc)
	}
	for i, op := range c.Ops {
		mod := func(f func(o *WalOp)) {
			nc := c
			nc.Ops = append([]WalOp(nil), c.Ops...)
			f(&nc.Ops[i])
			emit(nc)
		}
		if op.HS {
			mod(func(o *WalOp) { o.HS = false })
		}
		if op.N > 1 {
			mod(func(o *WalOp) { o.N = 1 })
		}
		if op.TermBump > 0 {
			mod(func(o *WalOp) { o.TermBump = 0 })
		}
		if op.Data > 0 {
			mod(func(o *WalOp) { o.Data = 0 })
		}
		if op.SnapOff > 0 {
			mod(func(o *WalOp) { o.SnapOff = 0 })
		}
	}
	return out
}

func init() {
	Register(&Check{
		ID:    "C06",
		Level: "fault_enumeration",
		Rule: "case = 1..3 groups in one Badger database and a sequence of 2..40 legal storage calls (Save with entries / conflicting overwrites / hard state / received snapshots beyond, inside and at the end of the log, also with following entries; CreateSnapshot; reopen; database close+reopen; DeleteGroup + new store); " +
			"after EVERY call every group is read through the warm instance and through a fresh (cold cache) instance and compared with etcd MemoryStorage; when enum is set, for EVERY position p a shadow group replays group 0's calls with a reopen after the p-th call; non-trivial = at least 2 calls; distinct = hash of the executed call log",
		Assumptions: []string{
			"reference semantics of one Save = ApplySnapshot (if any), Append, SetHardState (if non-empty): the order etcd's own hosts use",
			"Badger's own durability is trusted (a WriteBatch that returned is durable); torn writes inside Badger are out of reach",
			"calls the reference itself rejects with a panic (CreateSnapshot beyond the last index, Entries beyond last+1, appends leaving a gap) are not generated",
		},
		Real:   []string{"storage/wal badgerWAL (all methods)", "Badger v2.0.3 on a tmpfs directory", "etcd raft.MemoryStorage as the reference"},
		Stub:   []string{"the raft library as caller (calls are generated)"},
		Probes: []string{"save_with_snapshot", "save_with_snapshot_and_entries", "conflicting_overwrite", "local_snapshot_and_compaction", "reopen_cold_cache", "database_close_reopen", "delete_group", "reopen_positions_enumerated"},
		Budget: func(tier string) (int, time.Duration) {
			if tier == "thorough" {
				return 20000, 40 * time.Minute
			}
			return 2500, 4 * time.Minute
		},
		Gen:    genC06,
		Exec:   withSample(genC06, execC06),
		Shrink: shrinkC06,
	})
}

var _ = time.Second
