package anndbverif

// C12: no request can crash a node or poison the replicated log.

import (
	"context"
	"encoding/json"
	"fmt"
	"math"
	"runtime/debug"
	"strings"
	"time"

	"github.com/golang/protobuf/proto"
	pb "github.com/marekgalovic/anndb/protobuf"
	uuid "github.com/satori/go.uuid"

	"simrt"
)

// HReq is one hostile (but well-typed) request.
type HReq struct {
	Rpc  string `json:"rpc"`
	Node int    `json:"node"`
	// field selectors, interpreted per RPC
	DsId   string `json:"ds,omitempty"`   // good | unknown | empty | short | long
	ItemId string `json:"id,omitempty"`   // good | empty | short | long
	Vec    string `json:"vec,omitempty"`  // good | empty | short | long | nan | inf | huge
	Meta   string `json:"meta,omitempty"` // none | small | longkey | longval | many | widekey | wideval | edgekey
	Pair   string `json:"pair,omitempty"` // "delete-victim": while this request runs, the second healthy dataset is deleted through another node
	Slot   int    `json:"slot,omitempty"` // which of a few shared item ids the request is about (requests in any ORDER on the same item)
	K      uint32 `json:"k,omitempty"`
	Items  int    `json:"items,omitempty"`
	Dup    bool   `json:"dup,omitempty"`
	BadIds int    `json:"bad_ids,omitempty"` // malformed item ids inside a batch
	Part   string `json:"part,omitempty"`    // good | unknown | short
	Dim    uint32 `json:"dim,omitempty"`
	Space  int32  `json:"space,omitempty"`
	P      uint32 `json:"p,omitempty"`
	R      uint32 `json:"r,omitempty"`
	Seq    int    `json:"seq,omitempty"`
	Level  int32  `json:"level,omitempty"` // BatchItem.level, a public field no client ever sets
	Burst  int    `json:"burst,omitempty"` // the same request issued this many times at once, through different nodes
}

type C12Case struct {
	W3   W3Case `json:"w3"`
	Reqs []HReq `json:"reqs"`
}

func genC12(r *simrt.Rand, tier string) json.RawMessage {
	c := C12Case{}
	c.W3 = W3Case{Nodes: r.Range(1, 3), Dim: 3, Space: r.Intn(3), Partitions: r.Range(1, 3)}
	c.W3.Replicas = r.Range(1, c.W3.Nodes)
	c.W3.Cfg = W3Cfg{Seed: r.Uint64(), Net: NetCfg{MinLatMs: 1, JitterMs: 3}, SnapshotOffset: 2, YieldP: 0}
	pick := func(xs ...string) string { return xs[r.Intn(len(xs))] }
	rpcs := []string{"Insert", "Update", "Remove", "BatchInsert", "BatchUpdate", "BatchRemove", "PartitionBatchInsert", "PartitionBatchUpdate", "PartitionBatchRemove",
		"PartitionInfo", "Search", "SearchPartitions", "Create", "Get", "Delete", "GetDatasetSize", "List"}
	n := r.Range(1, 6)
	if r.Bool(0.2) {
		// a dataset is deleted while requests are writing to it (the partitions' raft groups
		// are unloaded under the running handlers)
		n = r.Range(1, 3)
		for i := 0; i < n; i++ {
			h := HReq{Rpc: pick("Insert", "Update", "Remove", "BatchInsert", "BatchInsert", "BatchUpdate", "BatchRemove", "Search"), Node: r.Range(1, c.W3.Nodes), Seq: i, Slot: r.Intn(3)}
			h.DsId, h.ItemId, h.Vec, h.Part, h.Meta = "victim", "good", "good", "good", pick("none", "small")
			h.Items = []int{1, 3, 100}[r.Intn(3)]
			h.K = uint32(r.Range(0, 20))
			h.Burst = r.Range(2, 6)
			if i == n-1 {
				h.Pair = "delete-victim"
			}
			c.Reqs = append(c.Reqs, h)
		}
		c.W3.Cfg.Deep, c.W3.Cfg.Burst = []int{40, 160, 400}[r.Intn(3)], []int{20, 50}[r.Intn(2)]
		b, _ := json.Marshal(c)
		return b
	}
	if r.Bool(0.4) {
		// plausible sequences: mostly well-formed item requests that meet on the shared items,
		// with at most one odd field each - what one request leaves behind is the input of the next
		n = r.Range(3, 8)
		itemRpcs := []string{"Insert", "Update", "Remove", "BatchInsert", "BatchUpdate", "BatchRemove", "PartitionBatchInsert", "PartitionBatchUpdate", "PartitionBatchRemove", "Update", "BatchUpdate"}
		for i := 0; i < n; i++ {
			h := HReq{Rpc: itemRpcs[r.Intn(len(itemRpcs))], Node: r.Range(1, c.W3.Nodes), Seq: i, Slot: r.Intn(3)}
			h.DsId, h.ItemId, h.Vec, h.Part = "good", "good", "good", "good"
			h.Meta = pick("none", "none", "small", "small", "edgekey")
			h.Items = []int{1, 1, 3}[r.Intn(3)]
			h.Dup = r.Bool(0.2)
			h.K = 5
			switch r.Intn(10) { // one odd field, sometimes
			case 0:
				h.Vec = pick("empty", "short", "long", "nan", "inf", "collinear")
			case 1:
				h.Meta = pick("longkey", "longval", "many", "widekey", "wideval", "key256", "val65536", "many65536")
			case 2:
				h.ItemId = pick("empty", "short", "long")
			case 3:
				h.Level = []int32{-1, -2, math.MinInt32, 7}[r.Intn(4)]
			}
			c.Reqs = append(c.Reqs, h)
		}
		b, _ := json.Marshal(c)
		return b
	}
	for i := 0; i < n; i++ {
		h := HReq{Rpc: rpcs[r.Intn(len(rpcs))], Node: r.Range(1, c.W3.Nodes), Seq: i}
		h.DsId = pick("good", "good", "good", "victim", "victim", "unknown", "empty", "short", "long")
		h.Level = []int32{0, 0, -1, -2, math.MinInt32, 7}[r.Intn(6)]
		if r.Bool(0.25) {
			h.Burst = r.Range(2, 8)
		}
		h.ItemId = pick("good", "good", "good", "empty", "short", "long")
		h.Slot = r.Intn(3)
		h.Vec = pick("good", "good", "empty", "short", "long", "nan", "inf", "collinear", "collinear")
		h.Meta = pick("none", "small", "longkey", "longval", "many", "widekey", "wideval", "edgekey", "key256", "val65536", "many65536")
		h.K = []uint32{0, 1, 5, 1 << 20, math.MaxUint32}[r.Intn(5)]
		h.Items = []int{0, 1, 3, 100, 101}[r.Intn(5)]
		h.Dup = r.Bool(0.3)
		if r.Bool(0.3) {
			h.BadIds = r.Range(1, 2)
		}
		h.Part = pick("good", "good", "unknown", "short")
		h.Dim = []uint32{0, 1, 3, 4096}[r.Intn(4)]
		h.Space = []int32{0, 1, 2, 7}[r.Intn(4)]
		h.P = []uint32{0, 1, 2, 9}[r.Intn(4)]
		h.R = []uint32{0, 1, 2, 9}[r.Intn(4)]
		if (h.Rpc == "BatchInsert" || h.Rpc == "PartitionBatchInsert") && r.Bool(0.5) {
			// an otherwise valid batch into the healthy dataset whose only oddity is the
			// level field (it reaches the apply loop if nothing overrides or checks it)
			h.Level = []int32{-2, math.MinInt32, -7, -1}[r.Intn(4)] // (huge positive values only exhaust memory: not generated)
			h.Items, h.BadIds, h.Vec, h.DsId, h.Part, h.Dup, h.Meta = []int{1, 3}[r.Intn(2)], 0, "good", "good", "good", false, "none"
		}
		c.Reqs = append(c.Reqs, h)
	}
	b, _ := json.Marshal(c)
	return b
}

func mkVec(kind string, dim int, seed int) []float32 {
	v := vecOf(7000+seed, seed+1, dim)
	switch kind {
	case "empty":
		return nil
	case "short":
		if dim > 1 {
			return v[:dim-1]
		}
		return nil
	case "long":
		return append(v, 1, 2)
	case "collinear":
		// a scaled copy of the vector of seed 0 (valid input; stresses the rounding of the cosine distance)
		b := vecOf(7000, 1, dim)
		f := float32(seed%9+2) * 0.37
		for i := range b {
			b[i] *= f
		}
		return b
	case "nan":
		v[0] = float32(math.NaN())
	case "inf":
		v[0] = float32(math.Inf(1))
	}
	return v
}

func mkMeta(kind string) map[string]string {
	switch kind {
	case "small":
		return map[string]string{"a": "b"}
	case "longkey":
		return map[string]string{strings.Repeat("k", 300): "v"}
	case "longval":
		return map[string]string{"v": strings.Repeat("x", 70000)}
	case "widekey": // 200 characters, 400 bytes
		return map[string]string{strings.Repeat("\u00e9", 200): "v"}
	case "wideval": // 30000 characters, 90000 bytes
		return map[string]string{"v": strings.Repeat("\u20ac", 30000)}
	case "key256": // one byte over the key limit
		return map[string]string{strings.Repeat("k", 256): "v"}
	case "val65536": // one byte over the value limit
		return map[string]string{"v": strings.Repeat("x", 65536)}
	case "many65536": // one entry over the count limit
		m := map[string]string{}
		for i := 0; i < 65536; i++ {
			m[fmt.Sprintf("k%d", i)] = ""
		}
		return m
	case "edgekey": // exactly at the limits: legal
		return map[string]string{strings.Repeat("k", 255): strings.Repeat("v", 65535)}
	case "many":
		m := map[string]string{}
		for i := 0; i < 70000; i++ {
			m[fmt.Sprintf("k%d", i)] = ""
		}
		return m
	}
	return nil
}

func mkId(kind string, good []byte) []byte {
	switch kind {
	case "empty":
		return nil
	case "short":
		return good[:15]
	case "long":
		return append(append([]byte(nil), good...), 1)
	case "unknown":
		u := idOf(99999)
		return u.Bytes()
	}
	return good
}

// issue sends one hostile request to a node's service objects; a panic in the
// handler (which would take a real server process down) is returned as such.
func (r *W3Run) hostile(h HReq, good *dsInfo) (panicked string, err error) {
	s := r.s
	if h.Node < 1 || h.Node > len(s.nodes) || !s.nodes[h.Node-1].alive {
		return "", nil
	}
	n := s.nodes[h.Node-1]
	dsid := mkId(h.DsId, good.id.Bytes())
	if v := r.ds[1]; h.DsId == "victim" && v != nil && v.ackedCreate {
		dsid = v.id.Bytes() // a second healthy dataset that hostile requests may delete
	}
	item := mkId(h.ItemId, idOf(8000+h.Slot).Bytes())
	var partId []byte
	if len(good.meta.GetPartitions()) > 0 {
		partId = good.meta.GetPartitions()[h.Seq%len(good.meta.GetPartitions())].GetId()
	}
	switch h.Part {
	case "unknown":
		partId = idOf(77777).Bytes()
	case "short":
		if len(partId) > 3 {
			partId = partId[:3]
		}
	}
	items := func() []*pb.BatchItem {
		var out []*pb.BatchItem
		for i := 0; i < h.Items; i++ {
			id := idOf(8100 + h.Seq*200 + i).Bytes()
			if i == 0 {
				id = idOf(8000 + h.Slot).Bytes() // the shared item: single and batch requests meet on it
			}
			if h.Dup && i > 0 {
				id = idOf(8100 + h.Seq*200).Bytes()
			}
			if i < h.BadIds {
				id = id[:7]
			}
			kind := "good"
			if i%5 == 1 {
				kind = h.Vec
			}
			out = append(out, &pb.BatchItem{Id: id, Value: mkVec(kind, good.dim, i), Metadata: mkMeta(map[bool]string{true: h.Meta, false: "none"}[i == 0]), Level: h.Level})
		}
		return out
	}
	call := func(ctx context.Context, n *simNode) (res interface{}, err error) {
		defer func() {
			if rec := recover(); rec != nil {
				panicked = fmt.Sprintf("%v | %s | %s", rec, topFrame(debug.Stack()), trimStack(debug.Stack()))
			}
		}()
		switch h.Rpc {
		case "Insert":
			return n.svcData.Insert(ctx, &pb.InsertRequest{DatasetId: dsid, Id: item, Value: mkVec(h.Vec, good.dim, h.Seq), Metadata: mkMeta(h.Meta)})
		case "Update":
			return n.svcData.Update(ctx, &pb.UpdateRequest{DatasetId: dsid, Id: item, Value: mkVec(h.Vec, good.dim, h.Seq), Metadata: mkMeta(h.Meta)})
		case "Remove":
			return n.svcData.Remove(ctx, &pb.RemoveRequest{DatasetId: dsid, Id: item})
		case "BatchInsert":
			return n.svcData.BatchInsert(ctx, &pb.BatchRequest{DatasetId: dsid, Items: items()})
		case "BatchUpdate":
			return n.svcData.BatchUpdate(ctx, &pb.BatchRequest{DatasetId: dsid, Items: items()})
		case "BatchRemove":
			return n.svcData.BatchRemove(ctx, &pb.BatchRequest{DatasetId: dsid, Items: items()})
		case "PartitionBatchInsert":
			return n.svcData.PartitionBatchInsert(ctx, &pb.PartitionBatchRequest{DatasetId: dsid, PartitionId: partId, Items: items()})
		case "PartitionBatchUpdate":
			return n.svcData.PartitionBatchUpdate(ctx, &pb.PartitionBatchRequest{DatasetId: dsid, PartitionId: partId, Items: items()})
		case "PartitionBatchRemove":
			return n.svcData.PartitionBatchRemove(ctx, &pb.PartitionBatchRequest{DatasetId: dsid, PartitionId: partId, Items: items()})
		case "PartitionInfo":
			return n.svcData.PartitionInfo(ctx, &pb.PartitionInfoRequest{DatasetId: dsid, PartitionId: partId})
		case "Search":
			fs := &fakeServerStream{ctx: ctx}
			return nil, n.svcSrch.Search(&pb.SearchRequest{DatasetId: dsid, Query: mkVec(h.Vec, good.dim, h.Seq), K: h.K}, srvStreamItems{fs})
		case "SearchPartitions":
			fs := &fakeServerStream{ctx: ctx}
			return nil, n.svcSrch.SearchPartitions(&pb.SearchPartitionsRequest{DatasetId: dsid, PartitionIds: [][]byte{partId}, Query: mkVec(h.Vec, good.dim, h.Seq), K: h.K}, srvStreamItems{fs})
		case "Create":
			return n.svcDM.Create(ctx, &pb.Dataset{Dimension: h.Dim, Space: pb.Space(h.Space), PartitionCount: h.P, ReplicationFactor: h.R})
		case "Get":
			return n.svcDM.Get(ctx, &pb.GetDatasetRequest{DatasetId: dsid, WithSize: h.Dup})
		case "Delete":
			if h.DsId == "good" {
				dsid = idOf(99998).Bytes() // never delete the canary dataset
			}
			return n.svcDM.Delete(ctx, &pb.UUIDRequest{Id: dsid})
		case "GetDatasetSize":
			return n.svcDM.GetDatasetSize(ctx, &pb.GetDatasetRequest{DatasetId: dsid})
		case "List":
			fs := &fakeServerStream{ctx: ctx}
			return nil, n.svcDM.List(&pb.ListDatasetsRequest{WithSize: h.Dup}, srvStreamDatasets{fs})
		}
		return nil, nil
	}
	label := fmt.Sprintf("hostile %s ds=%s id=%s vec=%s meta=%s k=%d items=%d bad=%d part=%s dim=%d space=%d P=%d R=%d level=%d burst=%d", h.Rpc, h.DsId, h.ItemId, h.Vec, h.Meta, h.K, h.Items, h.BadIds, h.Part, h.Dim, h.Space, h.P, h.R, h.Level, h.Burst)
	op := s.client(n, label, 20*time.Second, call)
	extra := []*clientOp{}
	for j := 1; j < h.Burst; j++ {
		m := s.nodes[(h.Node-1+j)%len(s.nodes)]
		if m.alive {
			extra = append(extra, s.client(m, label, 20*time.Second, call))
		}
	}
	if v := r.ds[1]; h.Pair == "delete-victim" && v != nil && v.ackedCreate && !v.ackedDelete {
		m := s.nodes[h.Node%len(s.nodes)]
		if m.alive {
			vid := v.id
			v.ackedDelete = true
			s.runFor(time.Duration(h.K%7) * time.Millisecond)
			extra = append(extra, s.client(m, "delete the dataset the running requests are writing to", 8*time.Second, func(ctx context.Context, n *simNode) (interface{}, error) {
				return n.svcDM.Delete(ctx, &pb.UUIDRequest{Id: vid.Bytes()})
			}))
			s.out.Stat("datasets_deleted_under_hostile_traffic", 1)
			// ... and more of the same requests keep arriving while the deletion makes its way
			// through the cluster: every few milliseconds one more, through every node
			for j := 0; j < 12; j++ {
				s.runFor(time.Duration(1+(int(h.K)+j*7)%5) * time.Millisecond)
				if q := s.nodes[(h.Node+j)%len(s.nodes)]; q.alive {
					extra = append(extra, s.client(q, label, 20*time.Second, call))
				}
			}
		}
	}
	s.runUntil(func() bool {
		for _, e := range extra {
			if !e.done {
				return false
			}
		}
		return op.done
	}, 25*time.Second)
	if !op.done {
		return "", fmt.Errorf("request never returned")
	}
	// a hostile Create that was accepted: follow-up traffic on the new dataset must be safe too
	if h.Rpc == "Create" && op.err == nil && panicked == "" {
		if d, ok := op.res.(*pb.Dataset); ok && d != nil {
			id, _ := uuid.FromBytes(d.GetId())
			info := &dsInfo{id: id, meta: d, dim: int(h.Dim), p: int(h.P), r: int(h.R), ackedCreate: true}
			r.ds[2000+h.Seq] = info
			s.runFor(2 * time.Second)
			for k := 0; k < 2 && panicked == ""; k++ {
				fo := s.client(n, "follow-up insert into the accepted dataset", 8*time.Second, func(ctx context.Context, n *simNode) (res interface{}, err error) {
					defer func() {
						if rec := recover(); rec != nil {
							panicked = fmt.Sprintf("%v | %s | %s", rec, topFrame(debug.Stack()), trimStack(debug.Stack()))
						}
					}()
					return n.svcData.Insert(ctx, &pb.InsertRequest{DatasetId: d.GetId(), Id: idOf(8500 + k).Bytes(), Value: vecOf(8500+k, 1, int(h.Dim))})
				})
				s.runUntil(func() bool { return fo.done }, 12*time.Second)
			}
			if panicked == "" {
				fo := s.client(n, "follow-up search in the accepted dataset", 8*time.Second, func(ctx context.Context, n *simNode) (res interface{}, err error) {
					defer func() {
						if rec := recover(); rec != nil {
							panicked = fmt.Sprintf("%v | %s | %s", rec, topFrame(debug.Stack()), trimStack(debug.Stack()))
						}
					}()
					fs := &fakeServerStream{ctx: ctx}
					return nil, n.svcSrch.Search(&pb.SearchRequest{DatasetId: d.GetId(), Query: vecOf(1, 1, int(h.Dim)), K: 3}, srvStreamItems{fs})
				})
				s.runUntil(func() bool { return fo.done }, 12*time.Second)
			}
		}
	}
	return panicked, op.err
}

// canary: healthy traffic on the healthy dataset through every node.
func (r *W3Run) canary(phase string, seq int) bool {
	s := r.s
	info := r.ds[0]
	for _, n := range r.aliveNodes() {
		ok := false
		var lastErr error
		for attempt := 0; attempt < 4 && !ok; attempt++ {
			id := 600000 + seq*100 + n.idx*10 + attempt
			h := &histOp{op: W3Op{K: "ins", Node: n.idx, Ids: []int{id}, Vers: []int{1}}, idx: -1}
			r.hist = append(r.hist, h)
			r.startWrite(h)
			s.runUntil(func() bool { return h.cop == nil || h.cop.done }, 30*time.Second)
			r.finishOp(h)
			lastErr = h.err
			ok = h.done && h.err == nil
		}
		if !ok {
			r.viol("canary-insert-fails/"+phase, "%s: healthy inserts through n%d fail (last: %v) - the node no longer serves", phase, n.idx, lastErr)
			return false
		}
		var panicked string
		so := s.client(n, "canary search", 10*time.Second, func(ctx context.Context, n *simNode) (res interface{}, err error) {
			defer func() {
				if rec := recover(); rec != nil {
					panicked = fmt.Sprintf("%v | %s", rec, topFrame(debug.Stack()))
				}
			}()
			fs := &fakeServerStream{ctx: ctx}
			err = n.svcSrch.Search(&pb.SearchRequest{DatasetId: info.id.Bytes(), Query: vecOf(1, 1, info.dim), K: 3}, srvStreamItems{fs})
			return len(fs.sent), err
		})
		s.runUntil(func() bool { return so.done }, 30*time.Second)
		if panicked != "" {
			r.viol("canary-search-panics/"+strings.Split(panicked, " | ")[1], "%s: a healthy search through n%d panics: %s", phase, n.idx, panicked)
			return false
		}
		if !so.done || so.err != nil {
			r.viol("canary-search-fails/"+phase, "%s: a healthy search through n%d fails: %v", phase, n.idx, so.err)
			return false
		}
		lo := s.client(n, "canary list", 10*time.Second, func(ctx context.Context, n *simNode) (interface{}, error) {
			fs := &fakeServerStream{ctx: ctx}
			return nil, n.svcDM.List(&pb.ListDatasetsRequest{}, srvStreamDatasets{fs})
		})
		s.runUntil(func() bool { return lo.done }, 30*time.Second)
		if !lo.done || lo.err != nil {
			r.viol("canary-list-fails/"+phase, "%s: listing datasets through n%d fails: %v", phase, n.idx, lo.err)
			return false
		}
	}
	r.out.Stat("canaries_ok", 1)
	return true
}

func execC12(raw json.RawMessage, wantLog bool) (out Outcome) {
	var c C12Case
	if err := json.Unmarshal(raw, &c); err != nil {
		out.Harness = err.Error()
		return
	}
	runScenario(&c.W3, "C12", &out, wantLog, nil, func(r *W3Run) {
		s := r.s
		if len(out.Violations) > 0 {
			return
		}
		good := r.ds[0]
		if !r.canary("before", 0) {
			return
		}
		// base items that later "collinear" vectors are scaled copies of
		for j := 0; j < 3; j++ {
			jj := j
			bo := s.client(s.nodes[0], "base item", 8*time.Second, func(ctx context.Context, n *simNode) (interface{}, error) {
				b := vecOf(7000, 1, good.dim)
				for i := range b {
					b[i] *= float32(jj + 1)
				}
				return n.svcData.Insert(ctx, &pb.InsertRequest{DatasetId: good.id.Bytes(), Id: idOf(7900 + jj).Bytes(), Value: b})
			})
			s.runUntil(func() bool { return bo.done }, 12*time.Second)
		}
		// the shared items the requests meet on: slot 0 exists with metadata, slot 1 exists
		// without, slot 2 does not exist (yet)
		for j := 0; j < 2; j++ {
			jj := j
			so := s.client(s.nodes[0], "shared item", 8*time.Second, func(ctx context.Context, n *simNode) (interface{}, error) {
				var md map[string]string
				if jj == 0 {
					md = map[string]string{"color": "red", "a": "b"}
				}
				return n.svcData.Insert(ctx, &pb.InsertRequest{DatasetId: good.id.Bytes(), Id: idOf(8000 + jj).Bytes(), Value: vecOf(8000+jj, 1, good.dim), Metadata: md})
			})
			s.runUntil(func() bool { return so.done }, 12*time.Second)
		}
		// a second healthy dataset, which hostile requests are allowed to delete
		r.createDataset(1, s.nodes[0], 2, 1, 3, 0, true)
		for i, h := range c.Reqs {
			panicked, err := r.hostile(h, good)
			out.Stat("hostile_requests", 1)
			out.Stat("hostile_"+h.Rpc, 1)
			if err != nil {
				out.Stat("hostile_requests_rejected_with_error", 1)
			}
			if panicked != "" {
				fr := strings.Split(panicked, " | ")
				r.viol("handler-panic/"+fr[1]+"/"+h.Rpc, "request #%d (%s) makes its handler panic (an unrecovered panic takes the server process down): %s", i, h.Rpc, panicked)
				return
			}
			s.runFor(500 * time.Millisecond)
			r.checkNoDeath()
			if len(out.Violations) > 0 {
				return
			}
			if !r.canary(fmt.Sprintf("after-%s", h.Rpc), i+1) {
				return
			}
		}
		// restart: whatever the requests left in the logs is replayed
		s.pump()
		for _, n := range s.nodes {
			if n.alive {
				s.stopNode(n, true)
			}
		}
		if !r.settle() {
			if len(out.Violations) == 0 {
				r.viol("no-recovery-after-restart/"+stuckClass(r), "after the requests, a restart of all nodes does not bring the cluster back: %s", r.describeStuck())
			}
			return
		}
		r.checkNoDeath()
		if len(out.Violations) > 0 || !r.canary("after-restart", 50) {
			return
		}
		// compaction + restart: the snapshots must be loadable as well
		s.runFor(11 * time.Second)
		s.pump()
		for _, n := range s.nodes {
			if n.alive {
				s.stopNode(n, true)
			}
		}
		if !r.settle() {
			if len(out.Violations) == 0 {
				r.viol("no-recovery-after-compaction-and-restart/"+stuckClass(r), "after compaction, a restart of all nodes does not bring the cluster back: %s", r.describeStuck())
			}
			return
		}
		r.checkNoDeath()
		if len(out.Violations) == 0 {
			r.canary("after-compaction-and-restart", 60)
		}
	})
	out.Nontrivial = out.Stats["hostile_requests"] > 0
	return
}

func shrinkC12(raw json.RawMessage) []json.RawMessage {
	var c C12Case
	if json.Unmarshal(raw, &c) != nil {
		return nil
	}
	var out []json.RawMessage
	emit := func(n C12Case) {
		b, _ := json.Marshal(n)
		out = append(out, b)
	}
	for i := range c.Reqs {
		n := c
		n.Reqs = append(append([]HReq(nil), c.Reqs[:i]...), c.Reqs[i+1:]...)
		if len(n.Reqs) > 0 {
			emit(n)
		}
	}
	if c.W3.Nodes > 1 {
		n := c
		n.W3.Nodes = 1
		n.W3.Replicas = 1
		n.Reqs = nil
		for _, h := range c.Reqs {
			h.Node = 1
			n.Reqs = append(n.Reqs, h)
		}
		emit(n)
	}
	if c.W3.Partitions > 1 {
		n := c
		n.W3.Partitions = 1
		emit(n)
	}
	for i, h := range c.Reqs {
		mod := func(f func(x *HReq)) {
			n := c
			n.Reqs = append([]HReq(nil), c.Reqs...)
			f(&n.Reqs[i])
			emit(n)
		}
		if h.DsId != "good" {
			mod(func(x *HReq) { x.DsId = "good" })
		}
		if h.ItemId != "good" {
			mod(func(x *HReq) { x.ItemId = "good" })
		}
		if h.Vec != "good" {
			mod(func(x *HReq) { x.Vec = "good" })
		}
		if h.Meta != "none" {
			mod(func(x *HReq) { x.Meta = "none" })
		}
		if h.Part != "good" {
			mod(func(x *HReq) { x.Part = "good" })
		}
		if h.BadIds != 0 {
			mod(func(x *HReq) { x.BadIds = 0 })
		}
		if h.Items > 1 {
			mod(func(x *HReq) { x.Items = 1 })
		}
		if h.K > 5 {
			mod(func(x *HReq) { x.K = 5 })
		}
		if h.Dup {
			mod(func(x *HReq) { x.Dup = false })
		}
	}
	return out
}

func init() {
	Register(&Check{
		ID: "C12", Level: "exploration",
		Rule: "case = cluster of 1..3 servers with a healthy dataset, then 1..6 well-typed but hostile requests drawn from a grammar over every RPC of DataManager / DatasetManager / Search (ids of length 0/15/17, unknown datasets and partitions, empty / short / long / NaN / Inf vectors, 300-byte keys, 70000-byte values, 70000 entries, k = 0 / 2^20 / 2^32-1, batches of 0/100/101 items with duplicates and malformed ids, PartitionBatch* with foreign ids and wrong dimensions, dataset parameters 0 / unknown metric / 9 replicas), healthy canary traffic (insert + search + list through every node) after each, then a restart of all nodes (replay), then compaction (snapshot threshold 2 + 11 simulated seconds) and another restart; " +
			"non-trivial = at least one hostile request; distinct = hash of the event log",
		Assumptions: []string{"a panic inside a request handler counts as a server crash (grpc-go does not recover handler panics)", "requests are well-typed protobuf messages; byte-level malformed frames are not generated",
			"the canary allows four retries: a request may be lost to a leader change"},
		Real: w3Real, Stub: w3Stub,
		Probes:   []string{"hostile_requests", "hostile_requests_rejected_with_error", "canaries_ok", "node_restarts", "hostile_Create", "hostile_Search", "hostile_SearchPartitions", "hostile_PartitionBatchInsert", "hostile_BatchInsert", "hostile_Insert", "hostile_Update"},
		MemLimit: 96 << 30, WallPerSeed: 4 * time.Minute, RecycleEvery: 10,
		Budget: func(tier string) (int, time.Duration) {
			if tier == "thorough" {
				return 15000, 50 * time.Minute
			}
			return 2000, 5 * time.Minute
		},
		Gen: withSchedKnobs(genC12), Exec: withSample(genC12, execC12), Shrink: shrinkC12, DeathSig: w3DeathSig("C12"),
	})
}

var _ = proto.Marshal
var _ = simrt.NewRand
