// Package simsync provides drop-in replacements for sync.Mutex and
// sync.RWMutex that the rewritten repository uses. The behaviour is selected
// by simrt.Mode():
//
//   plain  - delegates to the real sync.RWMutex
//   token  - acquisition is TryLock + hand the scheduler token back, so the
//            simulator decides who gets a contended lock and sees deadlocks
//   bubble - waiters park on channels created inside the synctest bubble, so
//            that a goroutine waiting for a lock is durably blocked (a real
//            sync.Mutex wait would stall synctest.Wait forever while the
//            holder is parked at a simulated RPC)
package simsync

import (
	"sync"

	"simrt"
)

type waiter struct {
	write bool
	ch    chan struct{}
}

type RWMutex struct {
	real sync.RWMutex

	mu      sync.Mutex
	writer  bool
	readers int
	queue   []*waiter

	// token mode: writers that are waiting in Lock. sync.RWMutex makes a pending
	// writer exclude new readers; TryLock in a loop would not, so it is modelled
	// here (a recursive read lock with a writer arriving in between is a deadlock
	// of the real mutex and must be one under the token scheduler).
	pendingWriters int
}

// The token scheduler runs one goroutine at a time and hands the token over
// with raw system calls, which the race detector does not see: these helpers
// are not instrumented so that the detector reports the program's races only.
//
//go:norace
func (m *RWMutex) pendAdd(d int) { m.pendingWriters += d }

//go:norace
func (m *RWMutex) pend() int { return m.pendingWriters }

func (m *RWMutex) Lock() {
	switch simrt.Mode() {
	case simrt.ModePlain:
		m.real.Lock()
	case simrt.ModeToken:
		simrt.Y(-1)
		if !m.real.TryLock() {
			m.pendAdd(1)
			for !m.real.TryLock() {
				simrt.BlockFn(m)
			}
			m.pendAdd(-1)
		}
	default:
		m.mu.Lock()
		if !m.writer && m.readers == 0 && len(m.queue) == 0 {
			m.writer = true
			m.mu.Unlock()
			return
		}
		w := &waiter{write: true, ch: make(chan struct{})}
		m.queue = append(m.queue, w)
		m.mu.Unlock()
		<-w.ch
	}
}

func (m *RWMutex) Unlock() {
	switch simrt.Mode() {
	case simrt.ModePlain:
		m.real.Unlock()
	case simrt.ModeToken:
		m.real.Unlock()
		simrt.WakeFn(m)
		simrt.Y(-2)
	default:
		m.mu.Lock()
		if !m.writer {
			m.mu.Unlock()
			panic("simsync: Unlock of unlocked RWMutex")
		}
		m.writer = false
		m.grant()
		m.mu.Unlock()
	}
}

func (m *RWMutex) RLock() {
	switch simrt.Mode() {
	case simrt.ModePlain:
		m.real.RLock()
	case simrt.ModeToken:
		simrt.Y(-3)
		for m.pend() > 0 || !m.real.TryRLock() {
			simrt.BlockFn(m)
		}
	default:
		m.mu.Lock()
		if !m.writer && len(m.queue) == 0 {
			m.readers++
			m.mu.Unlock()
			return
		}
		w := &waiter{write: false, ch: make(chan struct{})}
		m.queue = append(m.queue, w)
		m.mu.Unlock()
		<-w.ch
	}
}

func (m *RWMutex) RUnlock() {
	switch simrt.Mode() {
	case simrt.ModePlain:
		m.real.RUnlock()
	case simrt.ModeToken:
		m.real.RUnlock()
		simrt.WakeFn(m)
		simrt.Y(-4)
	default:
		m.mu.Lock()
		if m.readers <= 0 {
			m.mu.Unlock()
			panic("simsync: RUnlock of unlocked RWMutex")
		}
		m.readers--
		if m.readers == 0 {
			m.grant()
		}
		m.mu.Unlock()
	}
}

// grant hands the lock to the waiters at the head of the FIFO queue (writer
// preference: a queued writer blocks later readers, as sync.RWMutex does).
func (m *RWMutex) grant() {
	for len(m.queue) > 0 {
		h := m.queue[0]
		if h.write {
			if m.readers == 0 && !m.writer {
				m.writer = true
				m.queue = m.queue[1:]
				close(h.ch)
			}
			return
		}
		if m.writer {
			return
		}
		m.readers++
		m.queue = m.queue[1:]
		close(h.ch)
	}
}

func (m *RWMutex) TryLock() bool {
	switch simrt.Mode() {
	case simrt.ModePlain, simrt.ModeToken:
		return m.real.TryLock()
	default:
		m.mu.Lock()
		defer m.mu.Unlock()
		if !m.writer && m.readers == 0 && len(m.queue) == 0 {
			m.writer = true
			return true
		}
		return false
	}
}

func (m *RWMutex) TryRLock() bool {
	switch simrt.Mode() {
	case simrt.ModePlain, simrt.ModeToken:
		return m.real.TryRLock()
	default:
		m.mu.Lock()
		defer m.mu.Unlock()
		if !m.writer && len(m.queue) == 0 {
			m.readers++
			return true
		}
		return false
	}
}

// RLocker mirrors sync.RWMutex.RLocker.
func (m *RWMutex) RLocker() sync.Locker { return (*rlocker)(m) }

type rlocker RWMutex

func (r *rlocker) Lock()   { (*RWMutex)(r).RLock() }
func (r *rlocker) Unlock() { (*RWMutex)(r).RUnlock() }

// Held reports (bubble mode) whether the lock is held and how many wait.
func (m *RWMutex) Held() (writer bool, readers int, waiting int) {
	m.mu.Lock()
	defer m.mu.Unlock()
	return m.writer, m.readers, len(m.queue)
}

type Mutex struct{ rw RWMutex }

func (m *Mutex) Lock()         { m.rw.Lock() }
func (m *Mutex) Unlock()       { m.rw.Unlock() }
func (m *Mutex) TryLock() bool { return m.rw.TryLock() }
