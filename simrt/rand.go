// Package simrt is the tiny runtime shared by the rewritten copy of the
// repository and the simulation harness: seeded streams, the yield hook, the
// owned map iteration order and the scheduler mode switch.
package simrt

import (
	"sync/atomic"
)

// Rand is a splitmix64 stream. One root is created from VERIF_SEED and
// independent streams are split from it by label. It is not safe for
// concurrent use; every stream has exactly one owner.
type Rand struct{ s uint64 }

func NewRand(seed uint64) *Rand { return &Rand{s: seed} }

func mix(z uint64) uint64 {
	z = (z ^ (z >> 30)) * 0xbf58476d1ce4e5b9
	z = (z ^ (z >> 27)) * 0x94d049bb133111eb
	return z ^ (z >> 31)
}

func (r *Rand) Uint64() uint64 {
	r.s += 0x9e3779b97f4a7c15
	return mix(r.s)
}

func HashString(s string) uint64 {
	var h uint64 = 0xcbf29ce484222325
	for i := 0; i < len(s); i++ {
		h ^= uint64(s[i])
		h *= 0x100000001b3
	}
	return mix(h)
}

func HashBytes(h uint64, b []byte) uint64 {
	for i := 0; i < len(b); i++ {
		h ^= uint64(b[i])
		h *= 0x100000001b3
	}
	return h
}

// Split derives an independent stream; the parent is not advanced.
func (r *Rand) Split(label string) *Rand {
	return &Rand{s: mix(r.s ^ HashString(label))}
}

func (r *Rand) Intn(n int) int {
	if n <= 1 {
		return 0
	}
	return int(r.Uint64() % uint64(n))
}

func (r *Rand) Int63() int64 { return int64(r.Uint64() >> 1) }

func (r *Rand) Float64() float64 { return float64(r.Uint64()>>11) / (1 << 53) }

func (r *Rand) Bool(p float64) bool { return r.Float64() < p }

func (r *Rand) Range(lo, hi int) int { // inclusive
	if hi <= lo {
		return lo
	}
	return lo + r.Intn(hi-lo+1)
}

func (r *Rand) Perm(n int) []int {
	p := make([]int, n)
	for i := range p {
		p[i] = i
	}
	for i := n - 1; i > 0; i-- {
		j := r.Intn(i + 1)
		p[i], p[j] = p[j], p[i]
	}
	return p
}

// ---------------------------------------------------------------------------
// Scheduler mode and yield hook

const (
	ModePlain  int32 = 0 // real mutexes, yields are no-ops
	ModeToken  int32 = 1 // World I: cooperative token scheduler owns every sync point
	ModeBubble int32 = 2 // World III: mutexes park durably, yields are seeded Gosched
)

var mode int32

func Mode() int32     { return atomic.LoadInt32(&mode) }
func SetMode(m int32) { atomic.StoreInt32(&mode, m) }

// YieldFn is called at every rewrite-inserted yield point when the mode is
// not plain. Set by the harness before any simulated goroutine starts.
var YieldFn func(site int)

// BlockFn is called by a token-mode mutex that could not be acquired; it must
// hand the token to another runnable task and return when this task is
// scheduled again. key identifies the lock.
var BlockFn func(key interface{})

// WakeFn is called by a token-mode mutex on unlock, so that the scheduler can
// mark tasks blocked on key runnable again.
var WakeFn func(key interface{})

// Y is the yield point inserted by the rewrite.
func Y(site int) {
	if atomic.LoadInt32(&mode) == ModePlain {
		return
	}
	if f := YieldFn; f != nil {
		f(site)
	}
}

// ---------------------------------------------------------------------------
// Owned map iteration order. The rewritten `range` over a map first sorts the
// keys canonically and then asks Order for a permutation. The permutation is a
// pure function of (run seed, call site, canonical digest of the key set), so
// it does not depend on which goroutine asks first.

var orderSeed uint64
var orderMode int32 // 0 sorted, 1 reversed, 2 seeded permutation

func SetOrder(seed uint64, m int32) {
	atomic.StoreUint64(&orderSeed, seed)
	atomic.StoreInt32(&orderMode, m)
}

// Order permutes idx (a slice 0..n-1 in canonical key order) in place.
func Order(site int, digest uint64, idx []int) {
	switch atomic.LoadInt32(&orderMode) {
	case 0:
		return
	case 1:
		for i, j := 0, len(idx)-1; i < j; i, j = i+1, j-1 {
			idx[i], idx[j] = idx[j], idx[i]
		}
	default:
		r := Rand{s: mix(atomic.LoadUint64(&orderSeed) ^ digest ^ uint64(site)*0x9e3779b97f4a7c15)}
		for i := len(idx) - 1; i > 0; i-- {
			j := r.Intn(i + 1)
			idx[i], idx[j] = idx[j], idx[i]
		}
	}
}

// ---------------------------------------------------------------------------
// Tuning knobs (R4): package-level constants of the repository that the
// rewrite turned into variables read through Knob.

var knobs atomic.Value // map[string]int64

func SetKnobs(m map[string]int64) { knobs.Store(m) }

func Knob(name string, def int64) int64 {
	if m, ok := knobs.Load().(map[string]int64); ok {
		if v, ok := m[name]; ok {
			return v
		}
	}
	return def
}
