module simrt

go 1.14
