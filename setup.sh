#!/bin/bash
# Offline setup: build the rewrite tool and warm the Go build cache for the
# simulation worker (so that each check's own rebuild is mostly a link step).
set -e
cd "$(dirname "$0")"
export GOFLAGS=-mod=mod GOPROXY=off GOSUMDB=off GOTOOLCHAIN=local
GO=go1.26.8
command -v $GO >/dev/null 2>&1 || GO=/opt/veriftools/go1.26.8/bin/go
mkdir -p bin evidence replays
(cd cmd/rewrite && $GO build -o ../../bin/rewrite .)
python3 tools/mkoverlay.py
# warm-up build (also a smoke test of the pipeline); failures here are reported by the checks themselves
VERIF_SEEDS=50 ./check C01 --tier quick >/dev/null 2>&1 || true
echo "setup ok"
