// Command rewrite applies the simulation source rewrite (DESIGN.md §2.3) to a
// scratch copy of the anndb repository. It never touches /repo itself.
//
//   R1  sync.Mutex / sync.RWMutex            -> simsync.Mutex / simsync.RWMutex   (all repo packages)
//   R2  yield points around go / send / receive / select                         (all repo packages except index)
//   R3  package index: yields before sync/atomic statements; range over maps
//       becomes iteration over canonically sorted keys permuted by simrt.Order
//   R4  tuning knobs: selected package-level constants become variables with a
//       generated setter
//
// Exit status 2 on any failure (never a VIOLATION).
package main

import (
	"bytes"
	"flag"
	"fmt"
	"go/ast"
	"go/format"
	"go/token"
	"go/types"
	"os"
	"path/filepath"
	"sort"
	"strconv"
	"strings"

	"golang.org/x/tools/go/ast/astutil"
	"golang.org/x/tools/go/packages"
)

var (
	dir       = flag.String("dir", "", "scratch copy of the repository (modified in place)")
	simrtPath = flag.String("simrt", "", "absolute path of the simrt module")
	verbose   = flag.Bool("v", false, "verbose")
)

const modPath = "github.com/marekgalovic/anndb"

// packages that get rewritten (relative to the module root)
var targets = []string{".", "./index", "./cluster", "./services", "./storage", "./storage/raft", "./storage/wal", "./utils"}

type knob struct{ pkg, name, setter string }

var knobs = []knob{
	{modPath + "/storage/raft", "snapshotOffset", "VerifSetSnapshotOffset"},
	{modPath + "/storage", "maxBatchRequestSize", "VerifSetMaxBatchRequestSize"},
}

func fail(f string, a ...interface{}) {
	fmt.Fprintf(os.Stderr, "rewrite: "+f+"\n", a...)
	os.Exit(2)
}

var siteCounter = 0

func nextSite() int { siteCounter++; return siteCounter }

func main() {
	flag.Parse()
	if *dir == "" || *simrtPath == "" {
		fail("usage: rewrite -dir <copy> -simrt <path>")
	}
	// go.mod of the copy: add simrt
	gomod := filepath.Join(*dir, "go.mod")
	b, err := os.ReadFile(gomod)
	if err != nil {
		fail("%v", err)
	}
	if !bytes.Contains(b, []byte("simrt")) {
		b = append(b, []byte(fmt.Sprintf("\nrequire simrt v0.0.0\n\nreplace simrt => %s\n", *simrtPath))...)
		if err := os.WriteFile(gomod, b, 0644); err != nil {
			fail("%v", err)
		}
	}

	cfg := &packages.Config{
		Mode:       packages.NeedName | packages.NeedFiles | packages.NeedCompiledGoFiles | packages.NeedSyntax | packages.NeedTypes | packages.NeedTypesInfo | packages.NeedImports | packages.NeedExportFile,
		Dir:        *dir,
		BuildFlags: []string{"-tags=verif", "-mod=mod"},
		Env:        append(os.Environ(), "GOFLAGS=-mod=mod", "GOPROXY=off", "GOSUMDB=off"),
	}
	pkgs, err := packages.Load(cfg, targets...)
	if err != nil {
		fail("load: %v", err)
	}
	for _, p := range pkgs {
		for _, e := range p.Errors {
			fail("package %s does not type-check: %v", p.PkgPath, e)
		}
	}
	sort.Slice(pkgs, func(i, j int) bool { return pkgs[i].PkgPath < pkgs[j].PkgPath })

	stats := map[string]int{}
	for _, p := range pkgs {
		rw := &rewriter{pkg: p, stats: stats, helpers: map[string]*helper{}}
		isIndex := p.PkgPath == modPath+"/index"
		changedFiles := map[*ast.File]bool{}
		for _, f := range p.Syntax {
			fname := p.Fset.Position(f.Pos()).Filename
			if strings.HasSuffix(fname, "_test.go") {
				continue
			}
			rw.file = f
			rw.needSimrt, rw.needSimsync = false, false
			rw.collectAtomicFields()
			ch := rw.mutexes(f)
			if isIndex {
				ch = rw.mapRanges(f) || ch
				ch = rw.yields(f, true) || ch
			} else {
				// (R3p: ranges over maps keyed by pointers - their order is a function of heap
				// addresses, which differ from process to process - are owned everywhere)
				rw.onlyPtrKeys = true
				ch = rw.mapRanges(f) || ch
				rw.onlyPtrKeys = false
				ch = rw.yields(f, false) || ch
				if !strings.HasSuffix(fname, ".pb.go") && !strings.HasSuffix(p.PkgPath, "/math") && !strings.Contains(p.PkgPath, "/simd") && !strings.HasSuffix(p.PkgPath, "/index/space") {
					ch = rw.entryYields(f) || ch
				}
			}
			ch = rw.knobs(f) || ch
			if ch {
				changedFiles[f] = true
				if rw.needSimrt {
					astutil.AddImport(p.Fset, f, "simrt")
				}
				if rw.needSimsync {
					astutil.AddImport(p.Fset, f, "simrt/simsync")
				}
				if !astutil.UsesImport(f, "sync") {
					astutil.DeleteImport(p.Fset, f, "sync")
				}
			}
		}
		for f := range changedFiles {
			fname := p.Fset.Position(f.Pos()).Filename
			var buf bytes.Buffer
			if err := format.Node(&buf, p.Fset, f); err != nil {
				fail("format %s: %v", fname, err)
			}
			if err := os.WriteFile(fname, buf.Bytes(), 0644); err != nil {
				fail("%v", err)
			}
		}
		rw.writeGenerated()
	}
	if *verbose {
		keys := make([]string, 0, len(stats))
		for k := range stats {
			keys = append(keys, k)
		}
		sort.Strings(keys)
		for _, k := range keys {
			fmt.Fprintf(os.Stderr, "rewrite: %-28s %d\n", k, stats[k])
		}
	}
}

type helper struct {
	name    string
	mapType string
	keyType string
	less    string // expression over a, b
	hash    string // expression over d, k
	imports map[string]bool
}

type rewriter struct {
	pkg         *packages.Package
	file        *ast.File
	stats       map[string]int
	helpers     map[string]*helper
	needSimrt   bool
	needSimsync bool
	knobSetters []string
	onlyPtrKeys bool
	atomicFields map[string]bool
}

// collectAtomicFields records the names of struct fields whose address is
// passed to a sync/atomic function anywhere in the package; generated
// comparators must not read them plainly (that would be a race of the
// harness's own making).
func (rw *rewriter) collectAtomicFields() {
	if rw.atomicFields != nil {
		return
	}
	rw.atomicFields = map[string]bool{}
	for _, f := range rw.pkg.Syntax {
		ast.Inspect(f, func(n ast.Node) bool {
			ce, ok := n.(*ast.CallExpr)
			if !ok || !rw.isAtomicCall(ce) {
				return true
			}
			for _, a := range ce.Args {
				if ue, ok := a.(*ast.UnaryExpr); ok && ue.Op == token.AND {
					if se, ok := ue.X.(*ast.SelectorExpr); ok {
						rw.atomicFields[se.Sel.Name] = true
					}
				}
			}
			return true
		})
	}
}

// ---------------------------------------------------------------- R1

func (rw *rewriter) mutexes(f *ast.File) bool {
	changed := false
	astutil.Apply(f, func(c *astutil.Cursor) bool {
		se, ok := c.Node().(*ast.SelectorExpr)
		if !ok {
			return true
		}
		id, ok := se.X.(*ast.Ident)
		if !ok || (se.Sel.Name != "Mutex" && se.Sel.Name != "RWMutex") {
			return true
		}
		pn, ok := rw.pkg.TypesInfo.Uses[id].(*types.PkgName)
		if !ok || pn.Imported().Path() != "sync" {
			return true
		}
		c.Replace(&ast.SelectorExpr{X: ast.NewIdent("simsync"), Sel: ast.NewIdent(se.Sel.Name)})
		changed = true
		rw.needSimsync = true
		rw.stats["R1 mutex types"]++
		return true
	}, nil)
	return changed
}

// ---------------------------------------------------------------- R2 / R3 yields

func yieldStmt(site int) ast.Stmt {
	return &ast.ExprStmt{X: &ast.CallExpr{
		Fun:  &ast.SelectorExpr{X: ast.NewIdent("simrt"), Sel: ast.NewIdent("Y")},
		Args: []ast.Expr{&ast.BasicLit{Kind: token.INT, Value: strconv.Itoa(site)}},
	}}
}

// header returns the parts of a statement that are evaluated before any
// nested block of that statement.
func header(s ast.Stmt) []ast.Node {
	switch s := s.(type) {
	case *ast.IfStmt:
		return nn(s.Init, s.Cond)
	case *ast.ForStmt:
		return nn(s.Init, s.Cond)
	case *ast.RangeStmt:
		return nn(s.X)
	case *ast.SwitchStmt:
		return nn(s.Init, s.Tag)
	case *ast.TypeSwitchStmt:
		return nn(s.Init, s.Assign)
	case *ast.BlockStmt, *ast.SelectStmt, *ast.LabeledStmt, *ast.CaseClause, *ast.CommClause:
		return nil
	case *ast.DeferStmt:
		return nil
	case *ast.GoStmt:
		return nil
	default:
		return []ast.Node{s}
	}
}

func nn(ns ...ast.Node) []ast.Node {
	var out []ast.Node
	for _, n := range ns {
		if n == nil {
			continue
		}
		// typed nil guards
		switch v := n.(type) {
		case ast.Stmt:
			if v == nil {
				continue
			}
		case ast.Expr:
			if v == nil {
				continue
			}
		}
		out = append(out, n)
	}
	return out
}

func (rw *rewriter) isAtomicCall(n ast.Node) bool {
	found := false
	ast.Inspect(n, func(x ast.Node) bool {
		if found {
			return false
		}
		if _, ok := x.(*ast.FuncLit); ok {
			return false
		}
		if ce, ok := x.(*ast.CallExpr); ok {
			if se, ok := ce.Fun.(*ast.SelectorExpr); ok {
				if id, ok := se.X.(*ast.Ident); ok {
					if pn, ok := rw.pkg.TypesInfo.Uses[id].(*types.PkgName); ok && pn.Imported().Path() == "sync/atomic" {
						found = true
					}
				}
			}
		}
		return true
	})
	return found
}

// hasRepoIfaceCall: does the node call a method through an interface that the repository
// itself (or its generated protobuf package) declares - an RPC stub, a stream, the raft
// group or the log store? Such a call is where a request leaves the goroutine's hands:
// what it passes must not be shared with a sibling that is still preparing its own.
func (rw *rewriter) hasRepoIfaceCall(n ast.Node) bool {
	found := false
	ast.Inspect(n, func(x ast.Node) bool {
		if found {
			return false
		}
		if _, ok := x.(*ast.FuncLit); ok {
			return false
		}
		ce, ok := x.(*ast.CallExpr)
		if !ok {
			return true
		}
		se, ok := ce.Fun.(*ast.SelectorExpr)
		if !ok {
			return true
		}
		sel := rw.pkg.TypesInfo.Selections[se]
		if sel == nil || sel.Kind() != types.MethodVal {
			return true
		}
		recv := sel.Recv()
		if _, isIface := recv.Underlying().(*types.Interface); !isIface {
			return true
		}
		if named, ok := recv.(*types.Named); ok && named.Obj().Pkg() != nil && strings.HasPrefix(named.Obj().Pkg().Path(), "github.com/marekgalovic/anndb") {
			found = true
		}
		return true
	})
	return found
}

// hasLockCall: does the node acquire a mutex (Lock / RLock on a sync.Mutex or RWMutex)?
func (rw *rewriter) hasLockCall(n ast.Node) bool {
	found := false
	ast.Inspect(n, func(x ast.Node) bool {
		if found {
			return false
		}
		if _, ok := x.(*ast.FuncLit); ok {
			return false
		}
		ce, ok := x.(*ast.CallExpr)
		if !ok {
			return true
		}
		se, ok := ce.Fun.(*ast.SelectorExpr)
		if !ok || (se.Sel.Name != "Lock" && se.Sel.Name != "RLock") || len(ce.Args) != 0 {
			return true
		}
		if t := rw.pkg.TypesInfo.TypeOf(se.X); t != nil {
			ts := t.String()
			if strings.Contains(ts, "sync.Mutex") || strings.Contains(ts, "sync.RWMutex") || strings.Contains(ts, "simsync.") {
				found = true
			}
		}
		return true
	})
	return found
}

func hasRecv(n ast.Node) bool {
	found := false
	ast.Inspect(n, func(x ast.Node) bool {
		if found {
			return false
		}
		if _, ok := x.(*ast.FuncLit); ok {
			return false
		}
		if ue, ok := x.(*ast.UnaryExpr); ok && ue.Op == token.ARROW {
			found = true
		}
		return true
	})
	return found
}

func (rw *rewriter) yields(f *ast.File, index bool) bool {
	changed := false
	var doList func(list []ast.Stmt) []ast.Stmt
	doList = func(list []ast.Stmt) []ast.Stmt {
		out := make([]ast.Stmt, 0, len(list))
		for _, s := range list {
			inner := s
			if ls, ok := s.(*ast.LabeledStmt); ok {
				inner = ls.Stmt
			}
			before, after := false, false
			if index {
				for _, h := range header(inner) {
					if rw.isAtomicCall(h) {
						before = true
					}
				}
			} else {
				switch st := inner.(type) {
				case *ast.SendStmt:
					before = true
				case *ast.SelectStmt:
					before = true
				case *ast.GoStmt:
					after = true
					_ = st
				default:
					for _, h := range header(inner) {
						if hasRecv(h) || rw.hasRepoIfaceCall(h) || rw.hasLockCall(h) || rw.isAtomicCall(h) {
							// (R2d, atomics: lock-free code interleaves exactly there - a
							// check-then-act on an atomic cursor is two statements)
							before = true
						}
						if hasRecv(h) {
							// ... and after a receive: what was received may be shared with its
							// sender, who runs on (only for plain statements, not for loop / if headers)
							switch inner.(type) {
							case *ast.ExprStmt, *ast.AssignStmt, *ast.DeclStmt:
								after = true
							}
						}
					}
				}
			}
			// never put a statement between a label and its loop
			if before {
				out = append(out, yieldStmt(nextSite()))
				changed = true
				rw.needSimrt = true
				rw.stats["R2/R3 yield points"]++
			}
			out = append(out, s)
			if after {
				out = append(out, yieldStmt(nextSite()))
				changed = true
				rw.needSimrt = true
				rw.stats["R2/R3 yield points"]++
			}
		}
		return out
	}
	ast.Inspect(f, func(n ast.Node) bool {
		switch b := n.(type) {
		case *ast.BlockStmt:
			b.List = doList(b.List)
		case *ast.CaseClause:
			b.Body = doList(b.Body)
		case *ast.CommClause:
			b.Body = doList(b.Body)
			if !index && b.Comm != nil && len(b.Body) > 0 {
				if _, isSend := b.Comm.(*ast.SendStmt); !isSend {
					// a select arm that received something: a yield point before it is used
					b.Body = append([]ast.Stmt{yieldStmt(nextSite())}, b.Body...)
					changed = true
					rw.needSimrt = true
					rw.stats["R2/R3 yield points"]++
				}
			}
		case *ast.GoStmt:
			if !index {
				if fl, ok := b.Call.Fun.(*ast.FuncLit); ok {
					fl.Body.List = append([]ast.Stmt{yieldStmt(nextSite())}, fl.Body.List...)
					changed = true
					rw.needSimrt = true
					rw.stats["R2/R3 yield points"]++
				}
			}
		}
		return true
	})
	return changed
}

// entryYields (R2b): a yield point at the entry of every function and method (site -100:
// the simulator gives these a lower probability). Between a check and the act that
// relies on it there is, more often than not, a call - where a thread can lose the CPU.
func (rw *rewriter) entryYields(f *ast.File) bool {
	changed := false
	for _, d := range f.Decls {
		fd, ok := d.(*ast.FuncDecl)
		if !ok || fd.Body == nil || len(fd.Body.List) == 0 {
			continue
		}
		if fd.Name.Name == "init" || strings.HasPrefix(fd.Name.Name, "Verif") || strings.HasPrefix(fd.Name.Name, "verif") {
			continue
		}
		fd.Body.List = append([]ast.Stmt{yieldStmt(-100)}, fd.Body.List...)
		changed = true
		rw.needSimrt = true
		rw.stats["R2b function-entry yield points"]++
	}
	return changed
}

// ---------------------------------------------------------------- R3 map ranges

func (rw *rewriter) qualifier(p *types.Package) string {
	if p == rw.pkg.Types {
		return ""
	}
	// use the local import name in this file if there is one
	for _, imp := range rw.file.Imports {
		path, _ := strconv.Unquote(imp.Path.Value)
		if path == p.Path() {
			if imp.Name != nil {
				return imp.Name.Name
			}
			return p.Name()
		}
	}
	return p.Name()
}

// keySupport returns less/hash expressions for key type t, or ok=false.
func (rw *rewriter) keySupport(t types.Type, h *helper) (less, hash string, ok bool) {
	switch u := t.Underlying().(type) {
	case *types.Basic:
		switch {
		case u.Info()&types.IsString != 0:
			return "a < b", "simrt.HashBytes(d, []byte(k))", true
		case u.Info()&types.IsInteger != 0:
			return "a < b", "simrt.HashBytes(d, []byte(strconv.FormatInt(int64(k), 10)))", true
		}
	case *types.Array:
		if b, isB := u.Elem().Underlying().(*types.Basic); isB && b.Kind() == types.Uint8 {
			h.imports["bytes"] = true
			return "bytes.Compare(a[:], b[:]) < 0", "simrt.HashBytes(d, k[:])", true
		}
	case *types.Pointer:
		st, isS := u.Elem().Underlying().(*types.Struct)
		if !isS {
			return "", "", false
		}
		// find an id-like byte-array field, then tie-break on scalar fields
		var cmp []string
		hashExpr := ""
		for i := 0; i < st.NumFields(); i++ {
			fld := st.Field(i)
			if fld.Pkg() != rw.pkg.Types && !fld.Exported() {
				return "", "", false
			}
			n := fld.Name()
			if rw.atomicFields[n] {
				continue
			}
			switch fu := fld.Type().Underlying().(type) {
			case *types.Array:
				if b, isB := fu.Elem().Underlying().(*types.Basic); isB && b.Kind() == types.Uint8 {
					h.imports["bytes"] = true
					cmp = append(cmp, fmt.Sprintf("if c := bytes.Compare(a.%s[:], b.%s[:]); c != 0 { return c < 0 }", n, n))
					if hashExpr == "" && strings.EqualFold(n, "id") {
						hashExpr = fmt.Sprintf("simrt.HashBytes(d, k.%s[:])", n)
					}
				}
			case *types.Basic:
				if fu.Info()&(types.IsInteger|types.IsFloat|types.IsString) != 0 {
					cmp = append(cmp, fmt.Sprintf("if a.%s != b.%s { return a.%s < b.%s }", n, n, n, n))
				}
			case *types.Slice:
				if b, isB := fu.Elem().Underlying().(*types.Basic); isB && b.Info()&(types.IsInteger|types.IsFloat) != 0 {
					cmp = append(cmp, fmt.Sprintf("if len(a.%s) != len(b.%s) { return len(a.%s) < len(b.%s) }; for i := range a.%s { if a.%s[i] != b.%s[i] { return a.%s[i] < b.%s[i] } }", n, n, n, n, n, n, n, n, n))
				}
			}
		}
		if hashExpr == "" {
			return "", "", false
		}
		// id-like field first
		sort.SliceStable(cmp, func(i, j int) bool {
			return strings.Contains(cmp[i], "bytes.Compare") && !strings.Contains(cmp[j], "bytes.Compare")
		})
		return "func() bool { if a == b { return false }; " + strings.Join(cmp, "; ") + "; return false }()", hashExpr, true
	}
	return "", "", false
}

func (rw *rewriter) mapRanges(f *ast.File) bool {
	changed := false
	info := rw.pkg.TypesInfo
	rewriteRange := func(rs *ast.RangeStmt) ast.Stmt {
		tv, ok := info.Types[rs.X]
		if !ok {
			return nil
		}
		mt, ok := tv.Type.Underlying().(*types.Map)
		if !ok {
			return nil
		}
		if rw.onlyPtrKeys {
			if _, isPtr := mt.Key().Underlying().(*types.Pointer); !isPtr {
				return nil
			}
		}
		qual := func(p *types.Package) string { return rw.qualifier(p) }
		mapTypeStr := types.TypeString(tv.Type, qual)
		keyTypeStr := types.TypeString(mt.Key(), qual)
		h, exists := rw.helpers[mapTypeStr]
		if !exists {
			h = &helper{mapType: mapTypeStr, keyType: keyTypeStr, imports: map[string]bool{}}
			less, hash, ok := rw.keySupport(mt.Key(), h)
			if !ok {
				rw.stats["R3 map ranges left as is (unsupported key type "+keyTypeStr+")"]++
				fmt.Fprintf(os.Stderr, "rewrite: warning: range over %s left with runtime order\n", mapTypeStr)
				return nil
			}
			h.less, h.hash = less, hash
			h.name = fmt.Sprintf("verifKeys%d", len(rw.helpers)+1)
			// record imports needed by the type strings themselves
			for _, imp := range rw.file.Imports {
				path, _ := strconv.Unquote(imp.Path.Value)
				name := ""
				if imp.Name != nil {
					name = imp.Name.Name
				} else if p := rw.pkg.Imports[path]; p != nil {
					name = p.Name
				}
				if name != "" && (strings.Contains(mapTypeStr, name+".") || strings.Contains(keyTypeStr, name+".")) {
					if imp.Name != nil {
						h.imports[imp.Name.Name+" "+strconv.Quote(path)] = true
					} else {
						h.imports[path] = true
					}
				}
			}
			rw.helpers[mapTypeStr] = h
		}
		site := nextSite()
		mName := fmt.Sprintf("verifM%d", site)
		kName := fmt.Sprintf("verifK%d", site)
		var pre []ast.Stmt
		isBlank := func(e ast.Expr) bool {
			if e == nil {
				return true
			}
			id, ok := e.(*ast.Ident)
			return ok && id.Name == "_"
		}
		if !isBlank(rs.Key) {
			pre = append(pre, &ast.AssignStmt{Lhs: []ast.Expr{rs.Key}, Tok: rs.Tok, Rhs: []ast.Expr{ast.NewIdent(kName)}})
		}
		if !isBlank(rs.Value) {
			pre = append(pre, &ast.AssignStmt{Lhs: []ast.Expr{rs.Value}, Tok: rs.Tok, Rhs: []ast.Expr{&ast.IndexExpr{X: ast.NewIdent(mName), Index: ast.NewIdent(kName)}}})
		}
		newRange := &ast.RangeStmt{
			Key:   ast.NewIdent("_"),
			Value: ast.NewIdent(kName),
			Tok:   token.DEFINE,
			X: &ast.CallExpr{Fun: ast.NewIdent(h.name), Args: []ast.Expr{
				&ast.BasicLit{Kind: token.INT, Value: strconv.Itoa(site)}, ast.NewIdent(mName)}},
			Body: &ast.BlockStmt{List: append(pre, rs.Body.List...)},
		}
		assign := &ast.AssignStmt{Lhs: []ast.Expr{ast.NewIdent(mName)}, Tok: token.DEFINE, Rhs: []ast.Expr{rs.X}}
		changed = true
		rw.stats["R3 map ranges owned"]++
		return &ast.BlockStmt{List: []ast.Stmt{assign, newRange}}
	}
	astutil.Apply(f, nil, func(c *astutil.Cursor) bool {
		switch n := c.Node().(type) {
		case *ast.RangeStmt:
			if _, labeled := c.Parent().(*ast.LabeledStmt); labeled {
				return true // handled at the label
			}
			if repl := rewriteRange(n); repl != nil {
				c.Replace(repl)
			}
		case *ast.LabeledStmt:
			if rs, ok := n.Stmt.(*ast.RangeStmt); ok {
				if repl := rewriteRange(rs); repl != nil {
					blk := repl.(*ast.BlockStmt)
					n.Stmt = blk.List[1]
					c.Replace(&ast.BlockStmt{List: []ast.Stmt{blk.List[0], n}})
				}
			}
		}
		return true
	})
	return changed
}

// ---------------------------------------------------------------- R4 knobs

func (rw *rewriter) knobs(f *ast.File) bool {
	changed := false
	for _, k := range knobs {
		if k.pkg != rw.pkg.PkgPath {
			continue
		}
		for _, d := range f.Decls {
			gd, ok := d.(*ast.GenDecl)
			if !ok || gd.Tok != token.CONST || len(gd.Specs) != 1 {
				continue
			}
			vs := gd.Specs[0].(*ast.ValueSpec)
			if len(vs.Names) != 1 || vs.Names[0].Name != k.name || vs.Type == nil {
				continue
			}
			gd.Tok = token.VAR
			changed = true
			var tb bytes.Buffer
			format.Node(&tb, rw.pkg.Fset, vs.Type)
			rw.knobSetters = append(rw.knobSetters, fmt.Sprintf("func %s(v int64) { %s = %s(v) }\n", k.setter, k.name, tb.String()))
			rw.stats["R4 knobs"]++
		}
	}
	return changed
}

// ---------------------------------------------------------------- generated file

func (rw *rewriter) writeGenerated() {
	// knob setters always exist (no-op when the constant was not found) so the harness compiles
	var missing []string
	for _, k := range knobs {
		if k.pkg != rw.pkg.PkgPath {
			continue
		}
		found := false
		for _, s := range rw.knobSetters {
			if strings.Contains(s, "func "+k.setter+"(") {
				found = true
			}
		}
		if !found {
			missing = append(missing, fmt.Sprintf("func %s(v int64) {}\n", k.setter))
			fmt.Fprintf(os.Stderr, "rewrite: warning: knob %s not found in %s\n", k.name, k.pkg)
		}
	}
	if len(rw.helpers) == 0 && len(rw.knobSetters) == 0 && len(missing) == 0 {
		return
	}
	if len(rw.pkg.GoFiles) == 0 {
		return
	}
	var b bytes.Buffer
	fmt.Fprintf(&b, "// Code generated by /verif/cmd/rewrite (scratch copy only). DO NOT EDIT.\n\npackage %s\n\n", rw.pkg.Name)
	imports := map[string]bool{}
	if len(rw.helpers) > 0 {
		imports["sort"] = true
		imports["simrt"] = true
	}
	names := make([]string, 0, len(rw.helpers))
	for n, h := range rw.helpers {
		names = append(names, n)
		for i := range h.imports {
			imports[i] = true
		}
		if strings.Contains(h.hash, "strconv.") {
			imports["strconv"] = true
		}
	}
	sort.Strings(names)
	if len(imports) > 0 {
		b.WriteString("import (\n")
		is := make([]string, 0, len(imports))
		for i := range imports {
			is = append(is, i)
		}
		sort.Strings(is)
		for _, i := range is {
			if strings.Contains(i, " ") {
				fmt.Fprintf(&b, "\t%s\n", i)
			} else {
				fmt.Fprintf(&b, "\t%q\n", i)
			}
		}
		b.WriteString(")\n\n")
	}
	for _, n := range names {
		h := rw.helpers[n]
		fmt.Fprintf(&b, `func %s(site int, m %s) []%s {
	keys := make([]%s, 0, len(m))
	for k := range m {
		keys = append(keys, k)
	}
	sort.SliceStable(keys, func(i, j int) bool {
		a, b := keys[i], keys[j]
		return %s
	})
	idx := make([]int, len(keys))
	d := uint64(len(keys))
	for i, k := range keys {
		idx[i] = i
		d = %s
	}
	simrt.Order(site, d, idx)
	out := make([]%s, len(keys))
	for i, j := range idx {
		out[i] = keys[j]
	}
	return out
}

`, h.name, h.mapType, h.keyType, h.keyType, h.less, h.hash, h.keyType)
	}
	for _, s := range rw.knobSetters {
		b.WriteString(s)
	}
	for _, s := range missing {
		b.WriteString(s)
	}
	src, err := format.Source(b.Bytes())
	if err != nil {
		fail("generated file for %s does not format: %v\n%s", rw.pkg.PkgPath, err, b.String())
	}
	out := filepath.Join(filepath.Dir(rw.pkg.GoFiles[0]), "zz_verif_generated.go")
	if err := os.WriteFile(out, src, 0644); err != nil {
		fail("%v", err)
	}
}
